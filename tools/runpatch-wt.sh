#!/bin/bash
# usage: tools/runpatch-wt.sh <worktree of /repo> <patch.diff> [check ids...]
# Like runmutant.sh, but leaves /repo alone: the patch is applied in the given
# scratch worktree and a scratch copy of /verif (its go.mod pointing at that
# worktree) runs the quick checks. Several of these can run side by side.
set -u
WT=$(readlink -f "$1"); P=$(readlink -f "$2"); shift 2
. /verif/env.sh
VC=$(mktemp -d /tmp/vc-XXXXXX)
trap 'mkdir -p /tmp/hung-keep; cp "$VC"/replays/hung-*.y /tmp/hung-keep/ 2>/dev/null; git -C "$WT" checkout -q -- . ; git -C "$WT" clean -fdq; rm -rf "$VC"' EXIT
rsync -a --exclude .git --exclude seeded --exclude equiv --exclude evidence --exclude .bin --exclude replays --exclude mutants /verif/ "$VC"/
if [ -n "${HARNESS_SRC:-}" ]; then rsync -a --delete "$HARNESS_SRC"/ "$VC/harness"/; fi   # try out a scratch copy of the harness
sed -i "s#=> /repo#=> $WT#" "$VC/harness/go.mod"
git -C "$WT" checkout -q -- . ; git -C "$WT" clean -fdq
if ! git -C "$WT" apply "$P"; then echo "patch does not apply"; exit 2; fi
if ! (cd "$WT" && go build ./... 2>&1 | tail -3); then echo "MUTANT DOES NOT BUILD"; exit 3; fi
T=$(cd "$WT" && go test -vet=off -count=1 ./... 2>&1 | grep -E "^(FAIL|---)" | head -5)
if [ -n "$T" ]; then echo "MUTANT FAILS REPO TESTS: $T"; fi
IDS="$@"
if [ -z "$IDS" ]; then IDS=$(python3 -c "import json;print(' '.join(c['property_id'] for c in json.load(open('/verif/MANIFEST.json'))['checks']))"); fi
CAUGHT=""
for id in $IDS; do
  out=$(cd "$VC" && VERIF_DIR="$VC" VERIF_EVIDENCE_DIR="$VC/ev" ./check $id quick 2>&1); rc=$?
  if [ $rc -eq 1 ]; then CAUGHT="$CAUGHT $id"; echo "  $id: VIOLATION: $(echo "$out" | grep -m1 '^---- violation' | cut -c1-220)";
  elif [ $rc -ne 0 ]; then echo "  $id: exit $rc: $(echo "$out" | tail -2 | cut -c1-300)"; fi
done
echo "RESULT $(basename $P): caught by:${CAUGHT:- NONE}"
