#!/bin/bash
# usage: confirmseed.sh <prop> <n> <demo command...>   (run in the author's worktree /tmp/wt-<prop>)
# expects: demo passes unchanged, fails with patch<n>; tree builds and repo tests pass with the patch
. /verif/env.sh
P=$1; N=$2; shift 2
WT=${WT_PREFIX:-/tmp/wt-}$P
SO=${SEED_OUT:-/tmp/seed-out}
cd $WT && git checkout -q -- . && git clean -fdq
echo "== unchanged:"; (cd $SO/$P/demo && timeout 900 "$@" >/tmp/confirm.out 2>&1); echo "demo exit $?"
cd $WT && git apply $SO/$P/patch$N.diff || { echo "PATCH DOES NOT APPLY"; exit 1; }
go build ./... && echo "builds"; echo "repo tests ok packages: $(go test -vet=off -count=1 ./... 2>&1 | grep -c '^ok')  failing: $(go test -vet=off -count=1 ./... 2>&1 | grep -c '^FAIL')"
echo "== with patch$N:"; (cd $SO/$P/demo && timeout 900 "$@" >/tmp/confirm.out 2>&1); echo "demo exit $?"; tail -3 /tmp/confirm.out | cut -c1-200
cd $WT && git checkout -q -- . && git clean -fdq
