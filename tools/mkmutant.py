#!/usr/bin/env python3
"""mkmutant.py NAME FILE OLD NEW [FILE OLD NEW ...]: writes /verif/mutants/NAME.diff
(a patch against /repo HEAD) replacing OLD by NEW (all occurrences) in FILE."""
import sys, subprocess
name = sys.argv[1]
args = sys.argv[2:]
assert len(args) % 3 == 0
if subprocess.check_output(['git','-C','/repo','status','--porcelain']).strip():
    sys.exit('/repo not clean')
try:
    for i in range(0, len(args), 3):
        f, old, new = args[i:i+3]
        p = '/repo/' + f
        s = open(p).read()
        old = old.encode().decode('unicode_escape'); new = new.encode().decode('unicode_escape')
        if old not in s:
            sys.exit('pattern not found in %s: %r' % (f, old))
        open(p, 'w').write(s.replace(old, new))
    d = subprocess.check_output(['git','-C','/repo','diff'])
    open('/verif/mutants/%s.diff' % name, 'wb').write(d)
    print('wrote', name, len(d), 'bytes')
finally:
    subprocess.call(['git','-C','/repo','checkout','--','.'])
