#!/bin/bash
# usage: tools/runseeded.sh <seeded-id> [check ids...]
# Runs the quick checks against /verif/seeded/<id>/patch.diff (applied to /repo
# and reverted afterwards) and appends the outcome to seeded/RESULTS.md.
ID=$1; shift
D=/verif/seeded/$ID
[ -f $D/patch.diff ] || { echo "no $D/patch.diff"; exit 2; }
OUT=$(/verif/tools/runmutant.sh $D/patch.diff "$@" 2>&1)
echo "$OUT" | tail -8
RES=$(echo "$OUT" | grep '^RESULT' | sed 's/^RESULT patch.diff: //')
mkdir -p /verif/seeded
touch /verif/seeded/RESULTS.md
grep -v "^| $ID |" /verif/seeded/RESULTS.md > /tmp/results.$$ || true
echo "| $ID | $(python3 -c "import json;print(json.load(open('$D/meta.json'))['summary'])") | $RES |" >> /tmp/results.$$
sort /tmp/results.$$ > /verif/seeded/RESULTS.md; rm -f /tmp/results.$$
