#!/bin/bash
# usage: tools/runequiv.sh <patch.diff>
# Applies a behaviour-preserving change to /repo and runs ALL quick checks:
# every VIOLATION (or infrastructure problem) here is a false alarm of the harness.
P=$(readlink -f "$1")
OUT=$(/verif/tools/runmutant.sh "$P" 2>&1)
echo "$OUT" | grep -E "VIOLATION|exit [0-9]|MUTANT|RESULT|not clean|does not apply" | cut -c1-400
