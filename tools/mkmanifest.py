#!/usr/bin/env python3
"""Regenerates /verif/MANIFEST.json from the table below (kept in one place so
that the manifest stays valid while checks are added)."""
import json, os, sys
HERE = os.path.dirname(os.path.dirname(os.path.abspath(__file__)))

CHECKS = {
 "C03": dict(
  technique="property-based testing (rapid) + exhaustive small-grammar enumeration; oracle = canonical LR(1) automaton merged by core, compared set by set through a read-only hook; conflict-warning count vs reference conflict classification",
  text="Generated-input search: tens of thousands of random grammars per run from shape-aware families (nullable cycles, LR-class separating textbook grammars, precedence-decorated) plus every grammar of a small enumerated space; each accepted grammar's (state, rule) lookahead sets are compared with an independently computed LALR(1) definition and the conflict warnings with the reference conflict cells. Falsification only: no absence proof beyond the enumerated space.",
  note="trusts harness/ref (canonical LR(1) + merge, FOLLOW) and the verif hook accessor; grammar sizes <= 6 terminals, 5 nonterminals, 12 rules; LR(1) automaton capped at 20000 states",
  ref="4 (C03)"),
 "C09": dict(
  technique="property-based testing (rapid) + exhaustive small-grammar enumeration; oracle = independent canonical LR(0) construction, compared up to state renaming",
  text="Generated-input search over random grammar families and an exhaustively enumerated small space; every accepted grammar's LR0Closure is compared with a reference canonical collection (item-set bijection, transitions, start state, no duplicates).",
  note="trusts harness/ref BuildLR0; oracle grammar is yaccgo's own rule list (front-end faithfulness is C10)",
  ref="4 (C09)"),
}
NOT_YET = {}

def main():
    props = [json.loads(l) for l in open(os.path.join(HERE, "properties.jsonl"))]
    checks = []
    na = []
    for p in props:
        pid = p["id"]
        if pid in CHECKS:
            c = CHECKS[pid]
            checks.append({
                "property_id": pid,
                "quick_cmd": "./check %s quick" % pid,
                "thorough_cmd": "./check %s thorough" % pid,
                "evidence_file": "/verif/evidence/%s.json" % pid,
                "replay_cmd_template": "./check --replay {path}",
                "engine": "verifctl",
                "technique": c["technique"],
                "level_claimed": {"category": "exploration", "text": c["text"], "design_ref": "DESIGN.md section " + c["ref"]},
                "level_note": c["note"],
            })
        else:
            na.append({"property_id": pid, "reason": NOT_YET.get(pid, "check not built yet in this session (work in progress; the technique applies, see DESIGN.md section 4)")})
    m = {
        "version": 1,
        "setup_cmd": "./check --build",
        "hooks": {
            "guard": "verif",
            "enable": "go build -tags verif (the harness module replaces github.com/acekingke/yaccgo with /repo and is always built with -tags verif)",
            "baseline_off_cmd": "cd /repo && go test -mod=mod -json -vet=off -count=1 -timeout 25m ./...",
            "source_commits": json.load(open(os.path.join(HERE, "tools", "hook_commits.json"))),
            "add_only": True,
        },
        "engines": [{
            "name": "verifctl",
            "path": "/verif/harness",
            "serves_properties": sorted(CHECKS),
            "kind_free_text": "Go program (harness/cmd/verifctl): rapid v1.3.0 property-based generators + exhaustive enumerators, reference oracles in harness/ref, in-process adapter to yaccgo (tier P) and generated-code runner (tier G); one process per unit shard, evidence merged by the orchestrator",
        }],
        "checks": checks,
        "not_applicable": na,
        "notes": "All checks: exit 0 held / 1 VIOLATION / 2 infrastructure problem. VERIF_SEED selects the generator seeds (default 1). known_findings.json lists repaired defects (fixed: lines) and open findings.",
    }
    if not na:
        del m["not_applicable"]
    json.dump(m, open(os.path.join(HERE, "MANIFEST.json"), "w"), indent=1)
    print("wrote MANIFEST.json with", len(checks), "checks,", len(na), "not applicable")

main()
