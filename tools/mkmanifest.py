#!/usr/bin/env python3
"""Regenerates /verif/MANIFEST.json from the table below (kept in one place so
that the manifest stays valid while checks are added)."""
import json, os, sys
HERE = os.path.dirname(os.path.dirname(os.path.abspath(__file__)))

CHECKS = {
 "C03": dict(
  technique="property-based testing (rapid) + exhaustive small-grammar enumeration; oracle = canonical LR(1) automaton merged by core, compared set by set through a read-only hook; conflict-warning count vs reference conflict classification",
  text="Generated-input search: tens of thousands of random grammars per run from shape-aware families (nullable cycles, LR-class separating textbook grammars, precedence-decorated) plus every grammar of a small enumerated space; each accepted grammar's (state, rule) lookahead sets are compared with an independently computed LALR(1) definition and the conflict warnings with the reference conflict cells. Falsification only: no absence proof beyond the enumerated space.",
  note="trusts harness/ref (canonical LR(1) + merge, FOLLOW) and the verif hook accessor; grammar sizes <= 6 terminals, 5 nonterminals, 12 rules; LR(1) automaton capped at 20000 states",
  ref="4 (C03)"),
 "C09": dict(
  technique="property-based testing (rapid) + exhaustive small-grammar enumeration; oracle = independent canonical LR(0) construction, compared up to state renaming",
  text="Generated-input search over random grammar families and an exhaustively enumerated small space; every accepted grammar's LR0Closure is compared with a reference canonical collection (item-set bijection, transitions, start state, no duplicates).",
  note="trusts harness/ref BuildLR0; oracle grammar is yaccgo's own rule list (front-end faithfulness is C10)",
  ref="4 (C09)"),
}

def G(technique, text, note, ref):
    return dict(technique=technique, text=text, note=note, ref=ref)
CHECKS.update({
 "C01": G("generated parsers (5 variants) compiled and run on generated inputs; oracle = reverse-rightmost-derivation checker + Earley membership; in-process reference LR driver over dense and packed tables",
          "Generated-input search over grammars x inputs x variants; every accepted input's recorded reductions are checked to be a rightmost derivation in reverse.", "trusts harness/ref CheckDerivation/Earley and the driver epilogue (rec(n) in every action)", "4 (C01)"),
 "C02": G("generated parsers on every string up to a bound + sampled sentences of reference-LALR(1) grammars; oracle = Earley recogniser; LR-class separating grammar families",
          "Generated-input search restricted to grammars the reference classifies LALR(1); every sentence must be accepted by all five variants.", "trusts ref.Member and the reference LALR classification", "4 (C02)"),
 "C04": G("property-based testing (rapid): every two-way conflict cell of random precedence-decorated grammars vs the resolution rule of the property; exhaustive tiny space for default resolution",
          "Generated-input search over grammars with random %left/%right/%nonassoc/%prec; table cells compared with a reference resolution computed from the abstract spec.", "candidate sets are yaccgo's own (isolates C03); listed exclusions are counted in evidence", "4 (C04)"),
 "C05": G("property-based testing (rapid): PackTable round trip on random matrices with an independent lookup; packed-lookup model vs dense table on every cell of random and exhaustively enumerated grammars",
          "Generated-input search: matrices and grammars; lossless compression checked cell by cell.", "lookup model mirrors the template's Action(); the gen unit runs the real template code", "4 (C05)"),
 "C06": G("generated parsers on generated non-sentences; oracle = verdict class + fetch count vs Earley viable-prefix position",
          "Generated-input search over grammars x non-sentences x variants: rejection only through the documented channel, and for conflict-free grammars at the first bad token.", "trusts ref.ViablePrefixLen; deadline/step limit on conflicted grammars is inconclusive", "4 (C06)"),
 "C07": G("generated parsers with random linear actions over random union-field assignments; oracle = reference attribute evaluation over the validated parse tree",
          "Generated-input search over action/tag assignments x sentences x variants.", "trusts ref.Tree.Eval; coefficients pairwise distinct primes so slot mix-ups change the result", "4 (C07)"),
 "C08": G("differential testing of the five generated variants (go, go -u, go -o, go -o -u, typescript) on generated grammars and inputs",
          "Pure differential generated-input search; no reference needed.", "node >= 22 type stripping stands in for a TypeScript compiler", "4 (C08)"),
 "C10": G("property-based testing (rapid): abstract spec rendered with random layout (whitespace, comments, optional ';', merged/split declarations, joined/separate alternatives); round-trip oracle against the spec + metamorphic comparison with the canonical rendering",
          "Generated-input search over specifications x layouts; the grammar yaccgo built must equal the specification.", "listed layout exclusions (CRLF, %union newline, alias position) are stated in evidence assumptions", "4 (C10)"),
 "C12": G("property-based testing (rapid) with fault injection (unproductive / undefined symbols at start, deep, mutual, nullable siblings, unreachable) + exhaustive tiny space; oracle = textbook productive-nonterminal fixpoint",
          "Generated-input search in both directions: usable grammars must be processed, unusable refused.", "only refusal is asserted, not wording", "4 (C12)"),
 "C13": G("exhaustive prefix sweep of a corpus + rapid-drawn edit scripts and delimiter soups, each through generate go / generate typescript / debug in a watchdog-supervised worker, hangs confirmed with the real CLI",
          "Bounded-time completion over generated inputs (liveness decided as 'finishes within 30 s where milliseconds are normal').", "deadline oracle; confirmed twice with the CLI before counting", "4 (C13)"),
 "C14": G("repeated-run differential: R in-process repetitions and K separate CLI processes per grammar and option set, outputs compared byte for byte",
          "Sampling of Go's per-range map-order randomisation; miss probability per 2-element-map dependence 2^-(K-1) per grammar.", "cannot force a map order: stated as sampling", "4 (C14)"),
})

CHECKS.update({
 "C11": G("property-based testing (rapid) over declaration mixes: validity predicate on the code assignment (in-process symbol table; constants parsed from generated Go and TypeScript files; translate() exercised by a driver on declared codes, -1 and 60 other integers)",
          "Generated-input search over token declaration mixes x both target languages.", "explicit numbers generated distinct from each other and from literal codes, as the property presupposes", "4 (C11)"),
 "C15": G("stateful / model-based testing: generated operation histories (re-init, fresh contexts, parses mixing accepted and rejected inputs) and harness-owned token-granular interleavings of 2-4 contexts, each result compared with the same parse alone in a fresh process; plus a go build -race run of 8 concurrent contexts",
          "Generated histories and schedules against a fresh-process model; the harness owns the interleaving schedule at token granularity.", "the race unit depends on the OS scheduler: reports are real, silence is weak", "4 (C15)"),
 "C16": G("generated grammars (identifier/literal pools, tags, rule shapes, dense and packed tables) x five variants; oracle = the Go toolchain (batch go build) and node loading the TypeScript file",
          "Generated-input search; the compiler/loader is the oracle.", "no tsc in the sandbox: node type stripping stands in; token names avoid target-language keywords", "4 (C16)"),
 "C17": G("generated Go parsers run with IsTrace=true on generated inputs; the captured trace is parsed line by line and checked against the reductions recorded by the actions, the consumed input and a replay on the reference LR(0) automaton with LALR(1) lookaheads (consistent state bijection)",
          "Generated-input search over grammars x inputs x four Go variants with a multi-part trace oracle.", "line formats as documented in README.md; blank literal and undeclared codes not used here", "4 (C17)"),
 "C18": G("property-based testing (rapid): DrawGrammar output (valid DOT, Graphviz record labels parsed, edges, reduce annotations, accept fill) and the debug listing (states, items, gotos, lookahead sets) compared with the tables of the same in-process run",
          "Generated-input search over grammars incl. literals special in DOT; ground truth = LR0Closure, GTable and hook lookaheads of the same run.", "sets compared as sets; blank literal not generated", "4 (C18)"),
 "C19": G("fault injection: a catalogue of input-caused failures + random edit scripts x four output variants with a pre-existing output file of random bytes; oracle conditional on the exit status (failed => bytes unchanged; succeeded => complete, ends with the epilogue)",
          "Generated fault sequences over every input-caused failure the code can raise.", "failure = non-zero exit status of the CLI", "4 (C19)"),
})

NOT_YET = {}

def main():
    props = [json.loads(l) for l in open(os.path.join(HERE, "properties.jsonl"))]
    checks = []
    na = []
    for p in props:
        pid = p["id"]
        if pid in CHECKS:
            c = CHECKS[pid]
            checks.append({
                "property_id": pid,
                "quick_cmd": "./check %s quick" % pid,
                "thorough_cmd": "./check %s thorough" % pid,
                "evidence_file": "/verif/evidence/%s.json" % pid,
                "replay_cmd_template": "./check --replay {path}",
                "engine": "verifctl",
                "technique": c["technique"],
                "level_claimed": {"category": "exploration", "text": c["text"], "design_ref": "DESIGN.md section " + c["ref"]},
                "level_note": c["note"],
            })
        else:
            na.append({"property_id": pid, "reason": NOT_YET.get(pid, "check not built yet in this session (work in progress; the technique applies, see DESIGN.md section 4)")})
    m = {
        "version": 1,
        "setup_cmd": "./check --build",
        "hooks": {
            "guard": "verif",
            "enable": "go build -tags verif (the harness module replaces github.com/acekingke/yaccgo with /repo and is always built with -tags verif)",
            "baseline_off_cmd": "cd /repo && go test -mod=mod -json -vet=off -count=1 -timeout 25m ./...",
            "source_commits": json.load(open(os.path.join(HERE, "tools", "hook_commits.json"))),
            "add_only": True,
        },
        "engines": [{
            "name": "verifctl",
            "path": "/verif/harness",
            "serves_properties": sorted(CHECKS),
            "kind_free_text": "Go program (harness/cmd/verifctl): rapid v1.3.0 property-based generators + exhaustive enumerators, reference oracles in harness/ref, in-process adapter to yaccgo (tier P) and generated-code runner (tier G); one process per unit shard, evidence merged by the orchestrator",
        }],
        "checks": checks,
        "not_applicable": na,
        "notes": "All checks: exit 0 held / 1 VIOLATION / 2 infrastructure problem. VERIF_SEED selects the generator seeds (default 1). known_findings.json lists repaired defects (fixed: lines) and open findings.",
    }
    if not na:
        del m["not_applicable"]
    json.dump(m, open(os.path.join(HERE, "MANIFEST.json"), "w"), indent=1)
    print("wrote MANIFEST.json with", len(checks), "checks,", len(na), "not applicable")

main()
