#!/usr/bin/env python3
"""importseed.py <prop> <n> <summary> <needs>: copies /tmp/seed-out/<prop>/patch<n>.diff (+ demo, NOTES.md)
to /verif/seeded/<prop>-<n>/ with meta.json."""
import sys, os, shutil, json, subprocess
prop, n, summary, needs = sys.argv[1:5]
srcroot = os.environ.get('SEED_OUT', '/tmp/seed-out')
srcn = os.environ.get('SRC_N', n)
src = '%s/%s' % (srcroot, prop)
dst = '/verif/seeded/%s-%s' % (prop, n)
os.makedirs(dst, exist_ok=True)
shutil.copy(os.path.join(src, 'patch%s.diff' % srcn), os.path.join(dst, 'patch.diff'))
if os.path.isdir(os.path.join(src, 'demo')):
    if os.path.isdir(os.path.join(dst, 'demo')):
        shutil.rmtree(os.path.join(dst, 'demo'))
    shutil.copytree(os.path.join(src, 'demo'), os.path.join(dst, 'demo'), ignore=shutil.ignore_patterns('yaccgo*', '*.exe', 'bin', 'work', '*.test', 'out*'))
if os.path.exists(os.path.join(src, 'NOTES.md')):
    shutil.copy(os.path.join(src, 'NOTES.md'), os.path.join(dst, 'NOTES.md'))
meta = {"breaks": prop, "summary": summary, "needs_to_manifest": needs,
        "author": "fresh sub-agent given only the property text and a scratch worktree of /repo",
        "confirmed": "", "checks_run": ""}
json.dump(meta, open(os.path.join(dst, 'meta.json'), 'w'), indent=1)
print('imported', dst)
