#!/opt/veriftools/pyvenv/bin/python
import json, jsonschema, glob, sys
ok = True
try:
    jsonschema.validate(json.load(open('/verif/MANIFEST.json')), json.load(open('/root/.vp/MANIFEST.schema.json')))
    print('MANIFEST valid')
except Exception as e:
    ok = False; print('MANIFEST INVALID', e)
s = json.load(open('/root/.vp/EVIDENCE.schema.json'))
for f in sorted(glob.glob('/verif/evidence/*.json')):
    try:
        jsonschema.validate(json.load(open(f)), s); print(f, 'valid')
    except Exception as e:
        ok = False; print(f, 'INVALID', str(e)[:300])
sys.exit(0 if ok else 1)
