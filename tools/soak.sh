#!/bin/bash
# usage: tools/soak.sh <seed>...   runs every quick check at each seed (evidence to a
# scratch directory) and prints one line per check that does not exit 0.
cd /verif
IDS=$(python3 -c "import json;print(' '.join(c['property_id'] for c in json.load(open('/verif/MANIFEST.json'))['checks']))")
for seed in "$@"; do
  for id in $IDS; do
    t0=$(date +%s)
    out=$(VERIF_SEED=$seed VERIF_EVIDENCE_DIR=/tmp/soak-evidence timeout 3000 ./check $id quick 2>&1); rc=$?
    t1=$(date +%s)
    if [ $rc -ne 0 ]; then echo "SEED $seed $id rc=$rc ($((t1-t0)) s)"; echo "$out" | grep -E "VIOLATION|violation|INFRA|infra" | head -5 | cut -c1-400; else echo "seed $seed $id ok ($((t1-t0)) s)"; fi
  done
done
echo SOAKDONE
