#!/bin/bash
# usage: tools/runmutant.sh <patch.diff> [check ids...]
# Applies the patch to /repo, makes sure the tree still builds and passes the
# repository's own tests, runs the given quick checks (default: all in
# MANIFEST.json), prints which ones report a violation, then reverts /repo.
set -u
P=$(readlink -f "$1"); shift
cd /verif; . ./env.sh
if [ -n "$(git -C /repo status --porcelain)" ]; then echo "/repo not clean"; exit 2; fi
if ! git -C /repo apply "$P"; then echo "patch does not apply"; exit 2; fi
trap 'git -C /repo checkout -- . ; git -C /repo clean -fdq' EXIT
if ! (cd /repo && go build ./... 2>&1 | tail -3); then echo "MUTANT DOES NOT BUILD"; exit 3; fi
T=$(cd /repo && go test -vet=off -count=1 ./... 2>&1 | grep -E "^(FAIL|---)" | head -5)
if [ -n "$T" ]; then echo "MUTANT FAILS REPO TESTS: $T"; fi
IDS="$@"
if [ -z "$IDS" ]; then IDS=$(python3 -c "import json;print(' '.join(c['property_id'] for c in json.load(open('/verif/MANIFEST.json'))['checks']))"); fi
CAUGHT=""
for id in $IDS; do
  out=$(VERIF_EVIDENCE_DIR=/tmp/mutant-evidence ./check $id quick 2>&1); rc=$?
  if [ $rc -eq 1 ]; then CAUGHT="$CAUGHT $id"; echo "  $id: VIOLATION: $(echo "$out" | grep -m1 '^---- violation' | cut -c1-220)";
  elif [ $rc -ne 0 ]; then echo "  $id: exit $rc: $(echo "$out" | tail -2 | cut -c1-300)"; fi
done
echo "RESULT $(basename $P): caught by:${CAUGHT:- NONE}"
