#!/usr/bin/env python3
"""mktable.py: fills meta.json (confirmed / checks_run / caught_by) of every
seeded change from seeded/RESULTS.md, rewrites seeded/TABLE.md and the copy of
that table in DESIGN.md (between the table header of section 9 and the next
blank line)."""
import glob, json, os, re

V = '/verif'
res = {}
for line in open(V + '/seeded/RESULTS.md'):
    m = re.match(r'\| (C\d\d-\d+) \| .* \| caught by:(.*) \|$', line.strip())
    if m:
        res[m.group(1)] = m.group(2).strip()

rows = []
for d in sorted(glob.glob(V + '/seeded/C*-*')):
    sid = os.path.basename(d)
    p = d + '/meta.json'
    m = json.load(open(p))
    if sid in res:
        m['caught_by'] = res[sid]
    if not m.get('confirmed'):
        m['confirmed'] = ("applied in the author's scratch worktree of /repo: `go build ./...` ok, "
                          "`go test -vet=off -count=1 ./...` 8 packages ok; the author's demonstration "
                          "(see demo/RUN.md) exits 0 on the unchanged tree and non-zero with the patch "
                          "(tools/confirmseed.sh)")
    if not m.get('checks_run'):
        m['checks_run'] = ("tools/runseeded.sh %s (git -C /repo apply patch.diff; ./check <id> quick for the "
                           "listed ids; git -C /repo checkout -- .)" % sid)
    json.dump(m, open(p, 'w'), indent=1)
    esc = lambda s: s.replace('|', '\\|')
    rows.append('| %s | %s | %s | %s |' % (sid, esc(m['summary']), esc(m['needs_to_manifest']), m.get('caught_by', '?')))

head = ['| seeded change | what it does | needs to manifest | caught by (quick tier) |', '|---|---|---|---|']
table = '\n'.join(head + rows) + '\n'
open(V + '/seeded/TABLE.md', 'w').write(table)

s = open(V + '/DESIGN.md').read()
i = s.index(head[0])
j = s.index('\n\n', i)
s = s[:i] + table.rstrip('\n') + s[j:]
open(V + '/DESIGN.md', 'w').write(s)
print(len(rows), 'rows;', sum(1 for r in rows if r.endswith('| NONE |') or r.endswith('| ? |')), 'uncaught/unknown')
