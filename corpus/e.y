%{
package main
import "fmt"
%}

%token   'n'
%token EOF -1
%start L
%%
L :  /*empty*/
    |E L
E: 'n'
%%
func GetToken(input string, valTy *ValType, pos *int) int {
    if *pos >= len(input) {
        return -1
    }
    c := input[*pos]
    *pos++
    switch c {
    case 'n':
        *valTy = ValType{}
        return 'n'
    default:
        return 0
    }
}
func main() {
	v := Parser("nnn")
	fmt.Println(v)
}