// Copyright 2013 The Go Authors. All rights reserved.
	// Use of this source code is governed by a BSD-style
	// license that can be found in the LICENSE file.
	
	// This is an example of a goyacc program.
	// To build it:
	// goyacc -p "expr" expr.y (produces y.go)
	// go build -o expr y.go
	// expr
	// > <type an expression>
	
	%{
	
	package main
	
	import (
		"bufio"
		"bytes"
		"fmt"
		"io"
		"log"
		"math/big"
		"os"
		"unicode/utf8"
	)
	
	%}
	
	%union {
		num *big.Rat
	}
	
	%type	<num>	expr expr1 expr2 expr3
	
	%token '+' '-' '*' '/' '(' ')' MINUS
	%left '+' '-'
	%left '*' '/'
	%right MINUS
	%token	<num>	NUM
	%token NUM 100
	%start top
	%%
	
	top:
	expr
	{
		if $1.IsInt() {
			fmt.Println($1.Num().String())
		} else {
			fmt.Println($1.String())
		}
	}

expr:
	expr1
|	'+' expr
	{
		$$ = $2
	}
|	'-' expr %prec MINUS
	{
		$$ = $2.Neg($2)
	}

expr1:
	expr2
|	expr1 '+' expr2
	{
		$$ = $1.Add($1, $3)
	}
|	expr1 '-' expr2
	{
		$$ = $1.Sub($1, $3)
	}

expr2:
	expr3
|	expr2 '*' expr3
	{
		$$ = $1.Mul($1, $3)
	}
|	expr2 '/' expr3
	{
		$$ = $1.Quo($1, $3)
	}

expr3:
	NUM
|	'(' expr ')'
	{
		$$ = $2
	}

	
	
	
	%%
	
	// The parser expects the lexer to return 0 on EOF.  Give it a name
	// for clarity.
	const eof = 0
	
	// The parser uses the type <prefix>Lex as a lexer. It must provide
	// the methods Lex(*<prefix>SymType) int and Error(string).
	type exprLex struct {
		line []byte
		peek rune
	}	
	