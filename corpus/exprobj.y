// language: go
%{
package main
import (
	"fmt"
)
%}

%union {
	val int
}

%type	<val>	E
%token '+'  '*'   '(' ')' '/' '>'
%nonassoc '>'
%left '+'  
%left '*'  '/'
%token	<val>	NUM
%token NUM 100
%start E
%%

E:
	E '+' E {
		$$	=	$1 + $3
	}	
	| E '*' E {
		$$	=	$1 * $3
	}
	| E '/' E {
		$$	=	$1 / $3
	}
	| E '>' E {
		if 	$1 > $3 {
			$$	=	1
		} else {
			$$	=	0
		}
	}
	| '(' E ')' {
		$$	=	$2
	}
	| NUM {
		$$	=	$1
	}
	
%%
const EOF = -1
// The parser expects the lexer to return 0 on EOF.  Give it a name
// for clarity.
func GetToken(input string, valTy *ValType, pos *int) int {
	if *pos >= len(input) {
		return -1
	} else {
		*valTy = ValType{0}
	loop:
		if *pos >= len(input) {
			return EOF
		}
		c := input[*pos]
		*pos++
		switch c {
		case '+':
			fallthrough
		case '(':
			fallthrough
		case ')':
			fallthrough

		case '*':
			return int(c)
		case '/':
			return int(c)
		case '>':
			return int(c)
		default:
			if c >= '0' && c <= '9' { // is digit
				valTy.val = (valTy.val)*10 + int(c) - '0'
				// next is digit
				if *pos < len(input) && input[*pos] >= '0' && input[*pos] <= '9' {
					goto loop
				}
				return NUM
			}

		}
		return 0
	}
}

func main() {
	c := MakeParserContext()

	v := c.Parser("1+2*31>2").val
	fmt.Println(v)
}
