// Copyright 2013 The Go Authors. All rights reserved.
	// Use of this source code is governed by a BSD-style
	// license that can be found in the LICENSE file.
	
	// This is an example of a goyacc program.
	// To build it:
	// goyacc -p "expr" expr.y (produces y.go)
	// go build -o expr y.go
	// expr
	// > <type an expression>
	
	%{
	
	package main
	
	import (
		"bufio"
		"bytes"
		"fmt"
		"io"
		"log"
		"math/big"
		"os"
		"unicode/utf8"
	)
	
	%}
	
%left <tga> A B 
%left C
%start s
%%
s : A

