// every construct of the input language in one file
%{
package main

import "fmt"
%}
/* value types */
%union {
	num int
	str string
	nest struct { a int }
}
%token <num> NUM 300 HEX
%token <str> ID "identifier"
%token IF ELSE '(' ')' '\'' '"'
%token <num> '!'
%left <num> '+' '-'
%left '*' '/' '%'
%right POW
%nonassoc EQ '<' '>'
%precedence UMINUS
%type <num> expr opt
%type <str> name
%start prog
%%
prog : /* empty */
	| prog stmt ';' { fmt.Println($2) }
	;
stmt : expr { $$ = $1 }
	| IF '(' expr ')' stmt
	| IF '(' expr ')' stmt ELSE stmt { if $3 != 0 { $$ = $5 } else { $$ = $7 } }
	;
expr : expr '+' expr { $$ = $1 + $3 }
	| expr '-' expr { $$ = $1 - $3 }
	| expr '*' expr { $$ = $1 * $3 }
	| expr '%' expr
	| expr POW expr
	| expr EQ expr
	| '-' expr %prec UMINUS { $$ = -$2 }
	| '!' expr %prec '*' { $$ = $2 }
	| '(' expr ')' { $$ = $2 } // trailing
	| NUM | HEX
	| name opt { $$ = len($1) + $2 }
name : ID | '\'' ID '\'' { $$ = $2 }
opt : { $$ = 0 } | '<' NUM '>' { $$ = $2 }
%%
func GetToken(input string, valTy *ValType, pos *int) int {
	if *pos >= len(input) {
		return -1
	}
	c := input[*pos]
	*pos++
	return int(c)
}
