
	%{
		package main
		%}
		
		%left <tga> A B 
%left C
%start s
%%
s : A
A : B
B : A
		%%
