
	%{
		package main
		%}
		
		%union{
		String string
		Expr expr 
		}
		
		
		%token<String>  IDENTIFIER
		%token<String> NUMBER 100 
		%type <Expr> expr assignment
		
		%left '+' '-'
		%left '*' '/'
		%%
		start: expr {yylex.(*interpreter).parseResult = &astRoot{$1}} 
			 | assignment {yylex.(*interpreter).parseResult = $1}
			 ;
		
		expr:
			  NUMBER {$$ = &number{$1} }
			| IDENTIFIER { $$ = &variable{$1}}
			| expr '+' expr { $$ = &binaryExpr{Op: '+', lhs: $1, rhs: $3} }
			| expr '-' expr { $$ = &binaryExpr{Op: '-', lhs: $1, rhs: $3} }
			| expr '*' expr { $$ = &binaryExpr{Op: '*', lhs: $1, rhs: $3} }
			| expr '/' expr { $$ = &binaryExpr{Op: '/', lhs: $1, rhs: $3} }
			| '(' expr ')'  { $$ = &parenExpr{$2}}
			| '-' expr %prec '*' { $$ = &unaryExpr{$2} }
			;
			
		
		assignment:
				  IDENTIFIER '=' expr {$$ = &assignment{$1, $3}};
		%%
