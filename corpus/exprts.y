// Language: typescript

	
	%{
		"use strict";
	
	%}
	
	%union {
		val :number;
	}
	
	%type	<val>	E
	%token '+'  '*'   '(' ')' 
	%left '+'  
	%left '*'  
	%token	<val>	NUM
	%token NUM 100
	%start E
%%

E:
	E '+' E {
		$$	=	$1 + $3
	}	
	| E '*' E {
		$$	=	$1 * $3
	}
	| '(' E ')' {
		$$	=	$2
	}
	| NUM {
		$$	=	$1
	}
	
%%
function GetToken(input :string, model:{ValType :ValType, pos :number}) :number {
	if (model.pos >= input.length) {
		return -1
	} else {
        model.ValType = new ValType()
        model.ValType.val = 0
		while (true) {
			if (model.pos >= input.length) {
				return -1
			}
			let c = input.charCodeAt(model.pos)	
			model.pos++
			switch (c) {
				case '$'.charCodeAt(0):
				case '+'.charCodeAt(0):
				case '('.charCodeAt(0):
				case ')'.charCodeAt(0):
				case '*'.charCodeAt(0):
					return c
				default:
					if (c >= '0'.charCodeAt(0) && c <= '9'.charCodeAt(0)) {
						model.ValType.val = model.ValType.val*10 + c - '0'.charCodeAt(0)
						if (model.pos < input.length &&
							 input.charCodeAt(model.pos) >= '0'.charCodeAt(0) && 
							 input.charCodeAt(model.pos) <= '9'.charCodeAt(0)) {
							continue;
						}
						return NUM
					}
			}
		}
		return 0;
	}
}
try {
	console.log(Parser("1+20*31").val);
}catch(e) {
	console.log(e.stack)
	console.error(e)
	
}