# sourced by ./check and by hand: offline Go settings for the harness
export GOFLAGS=-mod=mod GOPROXY=off GOSUMDB=off GOTOOLCHAIN=local
