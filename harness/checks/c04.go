package checks

import (
	"encoding/json"
	"fmt"
	"sort"

	"pgregory.net/rapid"

	"verifharness/spec"
)

func init() {
	Describe("C04", &PropInfo{
		Rule: "cells unit: random grammars decorated with random %left/%right/%nonassoc lines and %prec annotations; every two-way conflict cell (candidate set = yaccgo's own shift transitions and hook lookaheads, so a lookahead deviation cannot masquerade as a precedence one) is compared with the resolution the property states, precedence taken from the abstract spec; non-trivial = grammar with >= 1 cell decided by declared precedence and >= 1 decided by a default rule. expr unit: generated expression parsers vs an operator-precedence reference (see units)",
		Assumptions: []string{
			"excluded and counted: multi-way cells; R/R cells in which both rules carry precedence; rules whose last terminal has no precedence while an earlier terminal has (yacc's 'last terminal' vs yaccgo's 'last terminal with precedence': the property does not choose); equal-level cells whose level was declared with %precedence (the property names only %left/%right/%nonassoc); accept-vs-reduce cells",
			"precedence level and associativity come from the abstract spec that was rendered to text (C10 checks that yaccgo reads them faithfully)",
		},
		Explanation: "reference resolution of each conflict cell (higher level wins; equal: left reduces, right shifts, nonassoc is an error entry; otherwise S/R shifts and R/R takes the earlier rule) compared with the dense table entry",
	})
	replay := func(c *Ctx, raw json.RawMessage) string {
		var gc GCase
		if m := decodeCase(raw, &gc); m != "" {
			return m
		}
		return evalC04Cells(c, gc)
	}
	Register(&Unit{Prop: "C04", Name: "cells",
		Shards: func(tier string) int { return map[string]int{"quick": 8, "thorough": 16}[tier] },
		Run: func(c *Ctx) {
			c.P.Rule = "random grammars with precedence, every two-way conflict cell"
			c.Rapid("cells", c.Pick(4000, 80000), func(t *rapid.T) {
				gc := DrawGrammar(t, []string{"prec", "prec", "prec-sep", "uniform", "nullable", "dup-rules"})
				if msg := evalC04Cells(c, gc); msg != "" {
					c.Fail(gc, msg)
					t.Fatalf("%s", msg)
				}
			})
		},
		Replay: replay,
	})
	Register(&Unit{Prop: "C04", Name: "cells-tiny",
		Shards: func(tier string) int { return map[string]int{"quick": 4, "thorough": 16}[tier] },
		Run: func(c *Ctx) {
			maxRules := c.Pick(3, 4)
			n := TinyCount(maxRules)
			c.P.Rule = fmt.Sprintf("all %d grammars over 2 terminals, 2 nonterminals, <= %d rules, rhs length <= 2 (no precedence lines: default resolution only)", n, maxRules)
			for i := c.Shard; i < n; i += c.NShards {
				s := TinyGrammar(i, maxRules)
				gc := GCase{Family: "tiny", Spec: s, Text: s.Render(spec.RenderOpts{})}
				if msg := evalC04Cells(c, gc); msg != "" {
					c.Violate(gc, msg)
					return
				}
			}
			if c.Shard == 0 {
				c.P.Exhaustive = append(c.P.Exhaustive, c.P.Rule)
			}
		},
		Replay: replay,
	})
}

func evalC04Cells(c *Ctx, gc GCase) string {
	c.Eval(1)
	if gc.Spec == nil {
		return "case has no abstract spec"
	}
	sp := gc.Spec
	b, ok, err := BuildText(gc.Text, false)
	if !ok {
		c.Class("rejected-by-yaccgo")
		return ""
	}
	if err != nil {
		return fmt.Sprintf("yaccgo's grammar tables are malformed: %v\n%s", err, gc.Text)
	}
	l := b.A.L
	g := b.A.G
	if len(g.Rules) != len(sp.Rules)+1 {
		c.Exclude("rule count differs from the spec (C10's verdict)")
		return ""
	}
	// terminal (our adapted index) -> spec precedence, by name
	byName := map[string]int{}
	for i, t := range sp.Terms {
		byName[t.YName()] = i
	}
	type tp struct {
		level int
		assoc string
	}
	tprec := make([]tp, g.NT+1)
	for i := 0; i < g.NT; i++ {
		si, ok := byName[g.Names[i]]
		if !ok {
			c.Exclude("terminal unknown to the spec (C10's verdict)")
			return ""
		}
		lv, as := sp.PrecOf(si)
		tprec[i] = tp{lv, as}
	}
	type rp struct {
		level     int
		assoc     string
		ambiguous bool
	}
	rprec := make([]rp, len(g.Rules))
	for i := 1; i < len(g.Rules); i++ {
		sr := sp.Rules[i-1]
		if sr.Prec >= 0 {
			lv, as := sp.PrecOf(sr.Prec)
			rprec[i] = rp{lv, as, false}
			continue
		}
		lastT, lastP := -1, -1
		for j, x := range sr.RHS {
			if x < len(sp.Terms) {
				lastT = j
				if lv, _ := sp.PrecOf(x); lv > 0 {
					lastP = j
				}
			}
		}
		if lastP >= 0 {
			lv, as := sp.PrecOf(sr.RHS[lastP])
			rprec[i] = rp{lv, as, lastP != lastT}
		}
	}
	yla, err := b.A.Lookaheads()
	if err != nil {
		return fmt.Sprintf("lookahead table malformed: %v\n%s", err, gc.Text)
	}
	ys := b.A.States()
	errc, accc := l.GenErrorCode(), l.GenAcceptCode()
	byPrec, byDefault := 0, 0
	for q := range ys {
		for ti := 0; ti <= g.NT; ti++ {
			sym := b.A.TermID(ti)
			shift, hasShift := 0, false
			if ti < g.NT {
				shift, hasShift = ys[q].Goto[ti]
			}
			var reds []int
			for r, la := range yla[q] {
				if la.Has(ti) {
					reds = append(reds, r)
				}
			}
			sort.Ints(reds)
			n := len(reds)
			if hasShift {
				n++
			}
			if n < 2 {
				continue
			}
			if n > 2 {
				c.Exclude("multi-way cell")
				continue
			}
			if q >= len(l.GTable) || sym >= len(l.GTable[q]) {
				return fmt.Sprintf("dense table has no cell (%d,%d)\n%s", q, sym, gc.Text)
			}
			cell := l.GTable[q][sym]
			want := 0
			why := ""
			if hasShift {
				r := reds[0]
				if r == 0 {
					c.Exclude("accept-vs-shift cell")
					continue
				}
				if rprec[r].ambiguous {
					c.Exclude("rule precedence ambiguous between yacc and yaccgo definitions")
					continue
				}
				t := tprec[ti]
				if t.level > 0 && rprec[r].level > 0 {
					switch {
					case rprec[r].level > t.level:
						want, why = -r, "rule has the higher precedence: reduce"
					case rprec[r].level < t.level:
						want, why = shift, "token has the higher precedence: shift"
					case t.assoc == "left":
						want, why = -r, "equal precedence, %left: reduce"
					case t.assoc == "right":
						want, why = shift, "equal precedence, %right: shift"
					case t.assoc == "nonassoc":
						want, why = errc, "equal precedence, %nonassoc: syntax error"
					default:
						c.Exclude("equal level declared with %precedence")
						continue
					}
					byPrec++
					c.Class("cell:sr-by-precedence")
				} else {
					want, why = shift, "no applicable precedence: shift"
					byDefault++
					c.Class("cell:sr-default-shift")
				}
			} else {
				r1, r2 := reds[0], reds[1]
				if r1 == 0 {
					c.Exclude("accept-vs-reduce cell")
					continue
				}
				if rprec[r1].level > 0 && rprec[r2].level > 0 {
					c.Exclude("R/R cell where both rules carry precedence")
					continue
				}
				if rprec[r1].ambiguous || rprec[r2].ambiguous {
					c.Exclude("rule precedence ambiguous between yacc and yaccgo definitions")
					continue
				}
				want, why = -r1, "reduce/reduce: the rule that appears first"
				byDefault++
				c.Class("cell:rr-default-first-rule")
			}
			_ = accc
			if cell != want {
				return fmt.Sprintf("state %d %s on %s: candidates shift=%v(%d) reduces=%v; expected %d (%s), table has %d\n%s",
					q, itemsString(g, ys[q].Items), termName(g, ti), hasShift, shift, ruleStrings(b, reds), want, why, cell, gc.Text)
			}
		}
	}
	if byPrec > 0 && byDefault > 0 {
		c.Nontrivial(Hash(gc.Text))
		if c.WantSample() {
			c.Sample(map[string]interface{}{"family": gc.Family, "grammar": gc.Text, "cells_by_precedence": byPrec, "cells_by_default": byDefault})
		}
	}
	if byPrec+byDefault > 0 {
		c.Class("grammar-with-two-way-conflict-cells")
	}
	return ""
}

func ruleStrings(b *Built, rs []int) []string {
	var o []string
	for _, r := range rs {
		o = append(o, fmt.Sprintf("%d: %s", r, b.A.G.RuleString(r)))
	}
	return o
}
