package checks

import (
	"encoding/json"
	"fmt"
	"sort"

	"pgregory.net/rapid"

	"verifharness/gen"
	"verifharness/ref"
	"verifharness/spec"
)

func init() {
	Describe("C04", &PropInfo{
		Rule: "cells unit: random grammars decorated with random %left/%right/%nonassoc lines and %prec annotations; every two-way conflict cell (candidate set = yaccgo's own shift transitions and hook lookaheads, so a lookahead deviation cannot masquerade as a precedence one) is compared with the resolution the property states, precedence taken from the abstract spec; non-trivial = grammar with >= 1 cell decided by declared precedence and >= 1 decided by a default rule. expr unit: generated expression parsers vs an operator-precedence reference (see units)",
		Assumptions: []string{
			"excluded and counted: multi-way cells; R/R cells in which both rules carry precedence; rules whose last terminal has no precedence while an earlier terminal has (yacc's 'last terminal' vs yaccgo's 'last terminal with precedence': the property does not choose); equal-level cells whose level was declared with %precedence (the property names only %left/%right/%nonassoc); accept-vs-reduce cells",
			"precedence level and associativity come from the abstract spec that was rendered to text (C10 checks that yaccgo reads them faithfully)",
		},
		Explanation: "reference resolution of each conflict cell (higher level wins; equal: left reduces, right shifts, nonassoc is an error entry; otherwise S/R shifts and R/R takes the earlier rule) compared with the dense table entry",
	})
	replay := func(c *Ctx, raw json.RawMessage) string {
		var gc GCase
		if m := decodeCase(raw, &gc); m != "" {
			return m
		}
		return evalC04Cells(c, gc)
	}
	Register(&Unit{Prop: "C04", Name: "cells",
		Shards: func(tier string) int { return map[string]int{"quick": 8, "thorough": 16}[tier] },
		Run: func(c *Ctx) {
			c.P.Rule = "random grammars with precedence, every two-way conflict cell"
			c.Rapid("cells", c.Pick(8000, 100000), func(t *rapid.T) {
				gc := DrawGrammar(t, []string{"prec", "prec", "prec-sep", "uniform", "nullable", "dup-rules"})
				if msg := evalC04Cells(c, gc); msg != "" {
					c.Fail(gc, msg)
					t.Fatalf("%s", msg)
				}
			})
		},
		Replay: replay,
	})
	Register(&Unit{Prop: "C04", Name: "cells-tiny",
		Shards: func(tier string) int { return map[string]int{"quick": 4, "thorough": 16}[tier] },
		Run: func(c *Ctx) {
			maxRules := c.Pick(3, 4)
			n := TinyCount(maxRules)
			c.P.Rule = fmt.Sprintf("all %d grammars over 2 terminals, 2 nonterminals, <= %d rules, rhs length <= 2 (no precedence lines: default resolution only)", n, maxRules)
			for i := c.Shard; i < n; i += c.NShards {
				s := TinyGrammar(i, maxRules)
				gc := GCase{Family: "tiny", Spec: s, Text: s.Render(spec.RenderOpts{})}
				if msg := evalC04Cells(c, gc); msg != "" {
					c.Violate(gc, msg)
					return
				}
			}
			if c.Shard == 0 {
				c.P.Exhaustive = append(c.P.Exhaustive, c.P.Rule)
			}
		},
		Replay: replay,
	})
}

func evalC04Cells(c *Ctx, gc GCase) string {
	c.Eval(1)
	if gc.Spec == nil {
		return "case has no abstract spec"
	}
	sp := gc.Spec
	b, ok, err := BuildText(gc.Text, false)
	if !ok {
		c.Class("rejected-by-yaccgo")
		return ""
	}
	if err != nil {
		return adaptProblem(c, err, gc.Text)
	}
	l := b.A.L
	g := b.A.G
	if len(g.Rules) != len(sp.Rules)+1 {
		c.Exclude("rule count differs from the spec (C10's verdict)")
		return ""
	}
	// terminal (our adapted index) -> spec precedence, by name
	byName := map[string]int{}
	for i, t := range sp.Terms {
		byName[t.YName()] = i
	}
	type tp struct {
		level int
		assoc string
	}
	tprec := make([]tp, g.NT+1)
	for i := 0; i < g.NT; i++ {
		si, ok := byName[g.Names[i]]
		if !ok {
			c.Exclude("terminal unknown to the spec (C10's verdict)")
			return ""
		}
		lv, as := sp.PrecOf(si)
		tprec[i] = tp{lv, as}
	}
	type rp struct {
		level     int
		assoc     string
		ambiguous bool
	}
	rprec := make([]rp, len(g.Rules))
	for i := 1; i < len(g.Rules); i++ {
		sr := sp.Rules[i-1]
		if sr.Prec >= 0 {
			lv, as := sp.PrecOf(sr.Prec)
			rprec[i] = rp{lv, as, false}
			continue
		}
		lastT, lastP := -1, -1
		for j, x := range sr.RHS {
			if x < len(sp.Terms) {
				lastT = j
				if lv, _ := sp.PrecOf(x); lv > 0 {
					lastP = j
				}
			}
		}
		if lastP >= 0 {
			lv, as := sp.PrecOf(sr.RHS[lastP])
			rprec[i] = rp{lv, as, lastP != lastT}
		}
	}
	yla, err := b.A.Lookaheads()
	if err != nil {
		return fmt.Sprintf("lookahead table malformed: %v\n%s", err, gc.Text)
	}
	ys := b.A.States()
	errc, accc := l.GenErrorCode(), l.GenAcceptCode()
	byPrec, byDefault := 0, 0
	for q := range ys {
		for ti := 0; ti <= g.NT; ti++ {
			sym := b.A.TermID(ti)
			shift, hasShift := 0, false
			if ti < g.NT {
				shift, hasShift = ys[q].Goto[ti]
			}
			var reds []int
			for r, la := range yla[q] {
				if la.Has(ti) {
					reds = append(reds, r)
				}
			}
			sort.Ints(reds)
			n := len(reds)
			if hasShift {
				n++
			}
			if n < 2 {
				continue
			}
			if n > 2 {
				c.Exclude("multi-way cell")
				continue
			}
			if q >= len(l.GTable) || sym >= len(l.GTable[q]) {
				return fmt.Sprintf("dense table has no cell (%d,%d)\n%s", q, sym, gc.Text)
			}
			cell := l.GTable[q][sym]
			want := 0
			why := ""
			if hasShift {
				r := reds[0]
				if r == 0 {
					c.Exclude("accept-vs-shift cell")
					continue
				}
				if rprec[r].ambiguous {
					c.Exclude("rule precedence ambiguous between yacc and yaccgo definitions")
					continue
				}
				t := tprec[ti]
				if t.level > 0 && rprec[r].level > 0 {
					switch {
					case rprec[r].level > t.level:
						want, why = -r, "rule has the higher precedence: reduce"
					case rprec[r].level < t.level:
						want, why = shift, "token has the higher precedence: shift"
					case t.assoc == "left":
						want, why = -r, "equal precedence, %left: reduce"
					case t.assoc == "right":
						want, why = shift, "equal precedence, %right: shift"
					case t.assoc == "nonassoc":
						want, why = errc, "equal precedence, %nonassoc: syntax error"
					default:
						c.Exclude("equal level declared with %precedence")
						continue
					}
					byPrec++
					c.Class("cell:sr-by-precedence")
				} else {
					want, why = shift, "no applicable precedence: shift"
					byDefault++
					c.Class("cell:sr-default-shift")
				}
			} else {
				r1, r2 := reds[0], reds[1]
				if r1 == 0 {
					c.Exclude("accept-vs-reduce cell")
					continue
				}
				if rprec[r1].level > 0 && rprec[r2].level > 0 {
					c.Exclude("R/R cell where both rules carry precedence")
					continue
				}
				if rprec[r1].ambiguous || rprec[r2].ambiguous {
					c.Exclude("rule precedence ambiguous between yacc and yaccgo definitions")
					continue
				}
				want, why = -r1, "reduce/reduce: the rule that appears first"
				byDefault++
				c.Class("cell:rr-default-first-rule")
			}
			_ = accc
			if cell != want {
				return fmt.Sprintf("state %d %s on %s: candidates shift=%v(%d) reduces=%v; expected %d (%s), table has %d\n%s",
					q, itemsString(g, ys[q].Items), termName(g, ti), hasShift, shift, ruleStrings(b, reds), want, why, cell, gc.Text)
			}
		}
	}
	if byPrec > 0 && byDefault > 0 {
		c.Nontrivial(Hash(gc.Text))
		if c.WantSample() {
			c.Sample(map[string]interface{}{"family": gc.Family, "grammar": gc.Text, "cells_by_precedence": byPrec, "cells_by_default": byDefault})
		}
	}
	if byPrec+byDefault > 0 {
		c.Class("grammar-with-two-way-conflict-cells")
	}
	return ""
}

func ruleStrings(b *Built, rs []int) []string {
	var o []string
	for _, r := range rs {
		o = append(o, fmt.Sprintf("%d: %s", r, b.A.G.RuleString(r)))
	}
	return o
}

// ---------------------------------------------------------------------
// expression level (tier G)

type C04Expr struct {
	Spec   *spec.Spec    `json:"spec"`
	Table  *spec.OpTable `json:"optable,omitempty"`
	Kind   string        `json:"kind"` // operators | dangling-else | duplicate-rules
	Inputs [][]int       `json:"inputs"`
	Text   string        `json:"grammar_text"`
}

func init() {
	Register(&Unit{Prop: "C04", Name: "expr",
		Shards: func(tier string) int { return map[string]int{"quick": 4, "thorough": 8}[tier] },
		Run: func(c *Ctx) {
			c.P.Rule = "operator tables (1-5 levels, any associativity, 1-3 binary operators per level, operators without precedence, prefix operators via %prec pseudo-tokens or own level, parentheses) x 40 generated expressions (long same-level chains, mixed levels, nonassoc chains, damaged ones), dangling-else grammars and grammars with duplicated rules; five variants; semantic value = fully parenthesised string; non-trivial = expression with >= 2 operators from >= 2 levels or a same-level chain of >= 3"
			n := c.Pick(36, 500)
			g := rapid.Custom(drawC04Expr)
			batch := 24
			for done := 0; done < n; done += batch {
				var cases []*C04Expr
				for i := 0; i < batch && done+i < n; i++ {
					cases = append(cases, g.Example(int(c.SubSeed("case", done+i)>>1)))
				}
				if runC04Expr(c, cases) {
					return
				}
			}
		},
		Replay: func(c *Ctx, raw json.RawMessage) string {
			var cs C04Expr
			if m := decodeCase(raw, &cs); m != "" {
				return m
			}
			c04Msg = ""
			runC04Expr(c, []*C04Expr{&cs})
			return c04Msg
		},
	})
}

var c04Msg string

func drawC04Expr(t *rapid.T) *C04Expr {
	switch k := rapid.IntRange(0, 9).Draw(t, "kind"); {
	case k == 0:
		// dangling else: S : IF S | IF S ELSE S | X
		s := &spec.Spec{Prologue: spec.DefPrologue, Union: spec.DefUnion, Epilogue: spec.DefEpilogue, Fields: []string{"str"}}
		s.Terms = []spec.Term{{Name: "IF", Decl: "token"}, {Name: "ELSE", Decl: "token"}, {Name: "X", Decl: "token", Tag: "str"}}
		s.NTs = []spec.NonTerm{{Name: "stmt", Tag: "str"}}
		rules := []spec.Rule{
			{LHS: 0, RHS: []int{0, 3}, Prec: -1, Sem: &spec.Sem{Kind: "cat", Parts: []spec.SemPart{{Text: "(if "}, {Pos: 2}, {Text: ")"}}}},
			{LHS: 0, RHS: []int{0, 3, 1, 3}, Prec: -1, Sem: &spec.Sem{Kind: "cat", Parts: []spec.SemPart{{Text: "(if "}, {Pos: 2}, {Text: " else "}, {Pos: 4}, {Text: ")"}}}},
			{LHS: 0, RHS: []int{2}, Prec: -1, Sem: &spec.Sem{Kind: "cat", Parts: []spec.SemPart{{Pos: 1}}}},
		}
		perm := rapid.Permutation(seq(3)).Draw(t, "perm")
		for _, p := range perm {
			s.Rules = append(s.Rules, rules[p])
		}
		cs := &C04Expr{Spec: s, Kind: "dangling-else"}
		for i := 0; i < 30; i++ {
			var w []int
			n := rapid.IntRange(0, 6).Draw(t, "nifs")
			for j := 0; j < n; j++ {
				w = append(w, 0)
			}
			w = append(w, 2)
			ne := rapid.IntRange(0, n).Draw(t, "nelse")
			for j := 0; j < ne; j++ {
				w = append(w, 1)
				ni := rapid.IntRange(0, 2).Draw(t, "ni")
				for q := 0; q < ni; q++ {
					w = append(w, 0)
				}
				w = append(w, 2)
			}
			cs.Inputs = append(cs.Inputs, w)
		}
		cs.Text = s.Render(spec.RenderOpts{})
		return cs
	case k == 1:
		// duplicated rules: the first of two identical rules must be used
		tg := drawTG(t, []string{"productive", "lalr"}, 60, 10)
		s := tg.Spec
		nd := rapid.IntRange(1, 3).Draw(t, "ndup")
		for i := 0; i < nd; i++ {
			r := s.Rules[rapid.IntRange(0, len(s.Rules)-1).Draw(t, "dup")]
			r.RHS = append([]int{}, r.RHS...)
			at := rapid.IntRange(0, len(s.Rules)).Draw(t, "dupat")
			s.Rules = append(s.Rules[:at:at], append([]spec.Rule{r}, s.Rules[at:]...)...)
		}
		cs := &C04Expr{Spec: s, Kind: "duplicate-rules", Inputs: drawInputs(t, s, 60, 10)}
		cs.Text = s.Render(spec.RenderOpts{})
		return cs
	default:
		s, ot := spec.Operator(t)
		cs := &C04Expr{Spec: s, Table: ot, Kind: "operators"}
		seen := map[string]bool{}
		for i := 0; i < 40; i++ {
			w := spec.DrawExpr(t, ot)
			if k := fmt.Sprint(w); !seen[k] {
				seen[k] = true
				cs.Inputs = append(cs.Inputs, w)
			}
		}
		cs.Text = s.Render(spec.RenderOpts{})
		return cs
	}
}

func opGrammar(s *spec.Spec, ot *spec.OpTable) *ref.OpGrammar {
	g := &ref.OpGrammar{Atom: ot.Atom, LP: ot.LP, RP: ot.RP, Binary: map[int]ref.OpDef{}, Prefix: map[int]ref.OpDef{}}
	conv := func(o spec.OpInfo) ref.OpDef {
		return ref.OpDef{Term: o.Term, RuleLevel: o.Level, RuleAssoc: o.Assoc, TokLevel: o.TokLv, TokAssoc: o.TokAs, Text: o.Text}
	}
	for _, o := range ot.Binary {
		g.Binary[o.Term] = conv(o)
	}
	for _, o := range ot.Prefix {
		g.Prefix[o.Term] = conv(o)
	}
	g.AtomText = func(pos int) string { return gen.TokenStrValue(s, pos, ot.Atom) }
	return g
}

// danglingElse is the reference for  S : IF S | IF S ELSE S | X  with the
// else bound to the nearest if (greedy recursive descent).
func danglingElse(s *spec.Spec, w []int) (string, bool) {
	pos := 0
	var stmt func() (string, bool)
	stmt = func() (string, bool) {
		if pos >= len(w) {
			return "", false
		}
		switch w[pos] {
		case 2:
			pos++
			return gen.TokenStrValue(s, pos-1, 2), true
		case 0:
			pos++
			a, ok := stmt()
			if !ok {
				return "", false
			}
			if pos < len(w) && w[pos] == 1 {
				pos++
				b, ok := stmt()
				if !ok {
					return "", false
				}
				return "(if " + a + " else " + b + ")", true
			}
			return "(if " + a + ")", true
		}
		return "", false
	}
	v, ok := stmt()
	if !ok || pos != len(w) {
		return "", false
	}
	return v, true
}

func runC04Expr(c *Ctx, cases []*C04Expr) bool {
	var tgs []*TGCase
	for _, cs := range cases {
		tgs = append(tgs, &TGCase{Family: cs.Kind, Spec: cs.Spec, Inputs: cs.Inputs, Text: cs.Text})
	}
	res, cleanup := runTG(c, tgs, false)
	defer cleanup()
	if res == nil {
		return true
	}
	for i, cs := range cases {
		vr := res[fmt.Sprintf("g%d", i)]
		s := cs.Spec
		fail := func(in []int, format string, a ...interface{}) bool {
			msg := fmt.Sprintf(format, a...) + "\ngrammar:\n" + cs.Text
			small := *cs
			if in != nil {
				small.Inputs = [][]int{in}
			}
			c04Msg = msg
			c.Violate(&small, msg)
			return true
		}
		var og *ref.OpGrammar
		if cs.Kind == "operators" {
			og = opGrammar(s, cs.Table)
		}
		rfacts := refFacts(s)
		ok := true
		for _, v := range gen.AllVariants {
			r := vr[v.Name]
			if r == nil || r.Gen.Failed() {
				c.Class("rejected-by-yaccgo")
				ok = false
				break
			}
			if !r.Built || r.TimedOut || len(r.Lines) < len(cs.Inputs) {
				c.Exclude("generated file does not build or run (C16/C06's business)")
				ok = false
				break
			}
		}
		if !ok {
			continue
		}
		for k, in := range cs.Inputs {
			var want string
			wantOK := false
			switch cs.Kind {
			case "operators":
				v, err := og.Eval(in)
				want, wantOK = v, err == nil
				if len(cs.Table.Prefix) == 0 && allHavePrec(cs.Table) {
					v2, err2 := og.EvalClimb(in)
					if (err2 == nil) != wantOK || (wantOK && v2 != v) {
						c.Infra("reference evaluators disagree on %v: shift-reduce %q/%v, precedence climbing %q/%v\n%s", in, v, err, v2, err2, cs.Text)
						return true
					}
					c.Class("oracle-cross-checked-with-precedence-climbing")
				}
			case "dangling-else":
				want, wantOK = danglingElse(s, in)
			}
			for _, v := range gen.AllVariants {
				pr, err := vr[v.Name].ParseRes(k)
				if err != nil {
					c.Infra("%v", err)
					return true
				}
				c.Eval(1)
				switch cs.Kind {
				case "duplicate-rules":
					if pr.Verdict == "accept" && !rfacts.hasPrec {
						for _, rn := range pr.Trace {
							for e := 1; e < rn; e++ {
								a, b := s.Rules[e-1], s.Rules[rn-1]
								if a.LHS == b.LHS && fmt.Sprint(a.RHS) == fmt.Sprint(b.RHS) {
									return fail(in, "variant %s reduces %s by rule %d although the identical rule %d appears earlier in the grammar file (reductions %v)", v.Name, inputNames(s, in), rn, e, pr.Trace)
								}
							}
						}
						if len(pr.Trace) > 0 {
							c.Class("duplicate-rule-parses-checked")
						}
					}
				default:
					if wantOK {
						got, _ := pr.Val["str"].(string)
						if pr.Verdict != "accept" {
							return fail(in, "variant %s rejects %s (%s %s); by the declared precedences it groups as %s", v.Name, inputNames(s, in), pr.Verdict, clip(pr.Msg, 100), want)
						}
						if got != want {
							return fail(in, "variant %s groups %s as %s; the declarations say %s", v.Name, inputNames(s, in), got, want)
						}
					} else if pr.Verdict == "accept" {
						return fail(in, "variant %s accepts %s as %v although it is a syntax error by the declarations (e.g. a chain of %%nonassoc operators)", v.Name, inputNames(s, in), pr.Val["str"])
					}
				}
			}
			if wantOK && exprNontrivial(cs, in) {
				c.Nontrivial(Hash(cs.Text, fmt.Sprint(in)))
				if c.WantSample() {
					c.Sample(map[string]interface{}{"kind": cs.Kind, "grammar": cs.Text, "input": inputNames(s, in), "grouping": want})
				}
			}
		}
		c.Class("kind:" + cs.Kind)
	}
	return false
}

func allHavePrec(ot *spec.OpTable) bool {
	for _, o := range ot.Binary {
		if o.TokLv == 0 {
			return false
		}
	}
	return true
}

func exprNontrivial(cs *C04Expr, in []int) bool {
	if cs.Kind == "dangling-else" {
		n := 0
		for _, x := range in {
			if x == 1 {
				n++
			}
		}
		return n >= 1 && len(in) >= 4
	}
	if cs.Table == nil {
		return false
	}
	levels := map[int]int{}
	ops := 0
	for _, x := range in {
		for _, o := range cs.Table.Binary {
			if o.Term == x {
				levels[o.TokLv]++
				ops++
			}
		}
	}
	if ops >= 2 && len(levels) >= 2 {
		return true
	}
	for _, n := range levels {
		if n >= 3 {
			return true
		}
	}
	return false
}
