package checks

func init() {
	Describe("C02", &PropInfo{
		Rule: "grammars that are LALR(1) according to the reference (canonical LR(1) merged by core has no conflict; never according to yaccgo's own warnings), without precedence lines: the constructive lalr family, the LR-class separating textbook grammars (renamed, embedded), and the conflict-free part of productive/nullable; inputs = every string up to a length bound + sampled sentences up to 25 tokens; five variants. Non-trivial = a sentence of length >= 2 of such a grammar; the class histogram (LR0 / SLR / LALR-only) is in classes; distinct by grammar text + input",
		Assumptions: []string{
			"membership oracle: Earley recogniser (ref.Member) on the abstract grammar",
			"grammars with precedence declarations are not used here, so 'LALR(1)' is unambiguous",
		},
		Explanation: "every sentence (Earley) of a reference-LALR(1) grammar must be accepted by every variant; tier P drives the dense table and the packed arrays with a reference LR driver over all strings up to length 5-6",
	})
	tgUnit("C02", "gen", []string{"lalr", "separators", "separators", "samehandle", "productive", "nullable", "bigauto"}, 36, 500, 4, 8, 150, 16)
}
