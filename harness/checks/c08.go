package checks

func init() {
	Describe("C08", &PropInfo{
		Rule: "grammars from the families productive/lalr/separators/nullable/prec (rapid generators, one seed per case) with random union fields, tags and linear actions; inputs = every string up to a length bound, sampled sentences (<= 25 tokens) and mutated sentences incl. undeclared token codes; each grammar is generated as go, go -u, go -o, go -o -u and typescript, the emitted files are compiled/loaded unchanged and run on every input; non-trivial = (grammar, input) whose parse performs >= 2 reductions (counted for accepted and rejected inputs separately in classes); distinct by grammar text + input",
		Assumptions: []string{
			"the harness supplies prologue, %union, actions of the form `rec(n); $$ = ...` (same text in Go and TypeScript) and an epilogue with GetToken and a driver; the generated code is used unchanged",
			"TypeScript runs under node >= 22 with type stripping (no tsc in the sandbox): the file is not type-checked",
			"verdict classes: accept / syntax (Go: panic starting with 'Grammar error'; TS: console.error + null) / crash / nilreturn / loop (more than 20000 reductions)",
		},
		Explanation: "pure differential oracle: verdict class, sequence of reductions (recorded by the actions), resulting value (all union fields) and number of tokens requested from the lexer must be equal across the five variants",
	})
	tgUnit("C08", "diff", []string{"productive", "lalr", "separators", "nullable", "prec", "prec-sep", "longrule", "longrule", "dup"}, 36, 500, 4, 8, 120, 12)
}
