package checks

import (
	"encoding/json"

	"pgregory.net/rapid"
)

func init() {
	Describe("C08", &PropInfo{
		Rule: "grammars from the families productive/lalr/separators/nullable/prec (rapid generators, one seed per case) with random union fields, tags and linear actions; inputs = every string up to a length bound, sampled sentences (<= 25 tokens) and mutated sentences incl. undeclared token codes; each grammar is generated as go, go -u, go -o, go -o -u and typescript, the emitted files are compiled/loaded unchanged and run on every input; non-trivial = (grammar, input) whose parse performs >= 2 reductions (counted for accepted and rejected inputs separately in classes); distinct by grammar text + input",
		Assumptions: []string{
			"the harness supplies prologue, %union, actions of the form `rec(n); $$ = ...` (same text in Go and TypeScript) and an epilogue with GetToken and a driver; the generated code is used unchanged",
			"TypeScript runs under node >= 22 with type stripping (no tsc in the sandbox): the file is not type-checked",
			"verdict classes: accept / syntax (Go: panic starting with 'Grammar error'; TS: console.error + null) / crash / nilreturn / loop (more than 20000 reductions)",
		},
		Explanation: "pure differential oracle: verdict class, sequence of reductions (recorded by the actions), resulting value (all union fields) and number of tokens requested from the lexer must be equal across the five variants",
	})
	Register(&Unit{Prop: "C08", Name: "noaction",
		Shards: func(tier string) int { return map[string]int{"quick": 2, "thorough": 8}[tier] },
		Run: func(c *Ctx) {
			c.P.Rule = "as diff, but a quarter of the rules are written without any action (their value is whatever each backend defaults to): verdict, recorded reductions, value and tokens requested must still agree across the five variants"
			n := c.Pick(24, 300)
			g := rapid.Custom(func(t *rapid.T) *TGCase {
				cs := drawTG(t, []string{"productive", "lalr", "separators", "prec"}, 80, 10)
				some := false
				for i := range cs.Spec.Rules {
					// only rules with a non-empty rhs: empty rules keep their rec() call, so
					// that a reduction loop in a conflicted grammar still hits the step limit
					hasTerminal := false
					for _, x := range cs.Spec.Rules[i].RHS {
						hasTerminal = hasTerminal || x < len(cs.Spec.Terms)
					}
					// (a reduction loop consumes no input, so it consists of rules without
					// terminals; those keep their rec() call and hit the step limit)
					if hasTerminal && rapid.IntRange(0, 2).Draw(t, "noact") == 0 {
						cs.Spec.Rules[i].NoAct = true
						some = true
					}
				}
				_ = some
				return cs
			})
			props := map[string]bool{"C08": true}
			for done := 0; done < n; done += 24 {
				var cases []*TGCase
				for i := 0; i < 24 && done+i < n; i++ {
					cases = append(cases, g.Example(int(c.SubSeed("case", done+i)>>1)))
				}
				if runAndEvalTG(c, cases, props) {
					return
				}
			}
		},
		Replay: func(c *Ctx, raw json.RawMessage) string {
			var cs TGCase
			if m := decodeCase(raw, &cs); m != "" {
				return m
			}
			res, cleanup := runTG(c, []*TGCase{&cs}, false)
			defer cleanup()
			if res == nil {
				return ""
			}
			if vs := evalTG(c, &cs, res["g0"], map[string]bool{"C08": true}); len(vs) > 0 {
				return vs[0].Msg
			}
			return ""
		},
	})
	tgUnit("C08", "diff", []string{"productive", "lalr", "separators", "nullable", "prec", "prec-sep", "longrule", "longrule", "dup", "plain-productive"}, 36, 500, 4, 8, 120, 12)
}
