package checks

import (
	"bufio"
	"encoding/base64"
	"encoding/json"
	"fmt"
	"io"
	"os"
	"os/exec"
	"path/filepath"
	"regexp"
	"runtime"
	"sort"
	"strconv"
	"strings"
	"time"

	"pgregory.net/rapid"

	"verifharness/gen"
	"verifharness/spec"
	"verifharness/yg"
)

func init() {
	Describe("C13", &PropInfo{
		Rule: "inputs: (grammars) well-formed grammar files rendered from rapid-drawn specifications of every family, canonical or random layout; (prefixes) every prefix of every corpus file (corpus/*.y: the repository's examples, the grammar literals of its tests, one file using every construct); (edits) rapid-drawn edit scripts over corpus files: delete/duplicate/replace spans, insert delimiter tokens or random bytes; (bytes) rapid-drawn byte strings up to 4 KB biased towards the input language's delimiters; each input is run through generate go, generate typescript and debug; non-trivial = the input is not a well-formed grammar (yaccgo reports failure); distinct by input bytes",
		Assumptions: []string{
			"oracle = the command finishes (any exit status) before a deadline of 10 s (worker, in-process) where ~1 ms is normal; a missed deadline is confirmed twice with the real CLI under a 30 s deadline before it counts as a violation",
			"bulk runs use a worker process linking yaccgo (same entry points as the CLI); every 50th input also goes through the real CLI binary",
			"termination within a deadline is what the property text asks for; this cannot distinguish 'very slow' from 'never'",
		},
		Explanation: "liveness decided as bounded-time completion over generated inputs; the worker is killed and restarted on a missed heartbeat",
	})
	Register(&Unit{Prop: "C13", Name: "prefixes",
		Shards: func(tier string) int { return 8 },
		Run:    runC13Prefixes, Replay: replayC13,
		Timeout: func(string) time.Duration { return 60 * time.Minute },
	})
	Register(&Unit{Prop: "C13", Name: "grammars",
		Shards: func(tier string) int { return map[string]int{"quick": 4, "thorough": 16}[tier] },
		Run: func(c *Ctx) {
			c.P.Rule = "well-formed grammar files rendered from rapid-drawn specifications of every family (conflicted, multi-way conflicts, precedence, nullable cycles, duplicated rules, random layout)"
			r := newC13Runner(c)
			defer r.close()
			c.Rapid("grammars", c.Pick(1500, 8000), func(t *rapid.T) {
				fams := []string{"uniform", "uniform-small", "productive", "nullable", "prec", "prec-sep", "separators", "lalr", "dup-rules", "samehandle", "decl"}
				if rare(t, "big", c.Pick(400, 400)) {
					// grammars at and beyond the 2000-state limit: yaccgo must stop with its diagnostic
					fams = []string{"blowup", "bigauto", "hugerule"}
				}
				gc := DrawGrammar(t, fams)
				text := gc.Text
				if rapid.Bool().Draw(t, "layout") {
					text = gc.Spec.Render(spec.RenderOpts{Layout: spec.DrawLayout(t)})
				}
				if msg := r.check([]byte(text), "rendered "+gc.Family+" grammar"); msg != "" {
					c.Fail(mkC13([]byte(text), "rendered "+gc.Family+" grammar"), msg)
					t.Fatalf("%s", msg)
				}
			})
		},
		Replay:  replayC13,
		Timeout: func(string) time.Duration { return 60 * time.Minute },
	})
	Register(&Unit{Prop: "C13", Name: "edits",
		Shards: func(tier string) int { return map[string]int{"quick": 6, "thorough": 16}[tier] },
		Run:    runC13Edits, Replay: replayC13,
		Timeout: func(string) time.Duration { return 60 * time.Minute },
	})
}

// C13Case: the input text (base64 when not valid UTF-8 would be lossy).
type C13Case struct {
	InputB64 string `json:"input_b64"`
	Input    string `json:"input_preview"`
	Origin   string `json:"origin"`
}

func mkC13(in []byte, origin string) C13Case {
	return C13Case{InputB64: base64.StdEncoding.EncodeToString(in), Input: clip(string(in), 400), Origin: origin}
}

func (cs C13Case) bytes() []byte {
	b, _ := base64.StdEncoding.DecodeString(cs.InputB64)
	return b
}

// ---- worker: a child process that links yaccgo and answers one line per input

// C13WorkerMain is entered via `verifctl c13worker`.
func C13WorkerMain() {
	ctl := os.NewFile(3, "ctl")
	in := bufio.NewReaderSize(os.Stdin, 1<<20)
	dir := os.Getenv("VERIF_C13W_DIR") // made and removed by the parent (this process may be killed)
	if dir == "" {
		dir, _ = os.MkdirTemp("", "verif-c13w-")
		defer os.RemoveAll(dir)
	}
	go func() { // runaway allocation guard
		var ms runtime.MemStats
		for {
			time.Sleep(200 * time.Millisecond)
			runtime.ReadMemStats(&ms)
			if ms.HeapAlloc > 3<<30 {
				fmt.Fprintln(ctl, "MEM")
				os.Exit(3)
			}
		}
	}()
	for {
		line, err := in.ReadString('\n')
		if err != nil {
			return
		}
		b, err := base64.StdEncoding.DecodeString(strings.TrimSpace(line))
		if err != nil {
			fmt.Fprintln(ctl, "BAD")
			continue
		}
		text := string(b)
		status := ""
		for _, mode := range []string{"go", "ts", "debug"} {
			fmt.Fprintln(ctl, "BEGIN "+mode)
			failed := false
			if mode == "debug" {
				r := yg.Build(text, true)
				failed = !r.Accepted()
			} else {
				r := yg.Generate(text, mode, filepath.Join(dir, "out."+mode))
				failed = r.Failed()
			}
			if failed {
				status += "F"
			} else {
				status += "S"
			}
		}
		fmt.Fprintln(ctl, "DONE "+status)
	}
}

type c13Worker struct {
	dir   string // scratch directory of the child, removed in kill()
	cmd   *exec.Cmd
	stdin io.WriteCloser
	ctl   *bufio.Reader
	lines chan string
}

func startC13Worker() (*c13Worker, error) {
	self, _ := os.Executable()
	cmd := exec.Command(self, "c13worker")
	dir, err := os.MkdirTemp("", "verif-c13w-")
	if err != nil {
		return nil, err
	}
	cmd.Env = append(os.Environ(), "VERIF_C13W_DIR="+dir)
	r, w, err := os.Pipe()
	if err != nil {
		os.RemoveAll(dir)
		return nil, err
	}
	cmd.ExtraFiles = []*os.File{w}
	cmd.Stdout = nil
	cmd.Stderr = nil
	stdin, err := cmd.StdinPipe()
	if err != nil {
		return nil, err
	}
	if err := cmd.Start(); err != nil {
		os.RemoveAll(dir)
		return nil, err
	}
	w.Close()
	wk := &c13Worker{dir: dir, cmd: cmd, stdin: stdin, ctl: bufio.NewReader(r), lines: make(chan string, 16)}
	go func() {
		for {
			l, err := wk.ctl.ReadString('\n')
			if err != nil {
				close(wk.lines)
				r.Close()
				return
			}
			wk.lines <- strings.TrimSpace(l)
		}
	}()
	return wk, nil
}

func (w *c13Worker) kill() {
	w.stdin.Close()
	w.cmd.Process.Kill()
	w.cmd.Wait()
	os.RemoveAll(w.dir)
}

// eval sends one input; returns status ("SSS".."FFF"), or hung mode / died.
func (w *c13Worker) eval(in []byte, deadline time.Duration) (status string, hungIn string, died bool) {
	if _, err := io.WriteString(w.stdin, base64.StdEncoding.EncodeToString(in)+"\n"); err != nil {
		return "", "", true
	}
	mode := ""
	timer := time.NewTimer(deadline)
	defer timer.Stop()
	for {
		select {
		case l, ok := <-w.lines:
			if !ok {
				return "", mode, true
			}
			switch {
			case strings.HasPrefix(l, "BEGIN "):
				mode = l[6:]
				if !timer.Stop() {
					select {
					case <-timer.C:
					default:
					}
				}
				timer.Reset(deadline)
			case strings.HasPrefix(l, "DONE "):
				return l[5:], "", false
			case l == "MEM":
				return "", mode + " (runaway allocation)", true
			}
		case <-timer.C:
			return "", mode, false
		}
	}
}

type c13Runner struct {
	how    string // how the last non-finishing CLI run showed
	c      *Ctx
	w      *c13Worker
	n      int
	tmp    string
	dl     time.Duration
	hangs  int
	stopAt int
}

func newC13Runner(c *Ctx) *c13Runner {
	tmp, _ := os.MkdirTemp(c.OutDir, "c13-")
	return &c13Runner{c: c, tmp: tmp, dl: 10 * time.Second, stopAt: 3}
}

func (r *c13Runner) close() {
	if r.w != nil {
		r.w.kill()
	}
	os.RemoveAll(r.tmp)
}

// cliConfirm runs the real CLI on the input; returns the command that does
// not finish ("" when all finish).
// The CLI verdict does not rest on wall-clock time (a loaded machine makes
// everything slow): a run "does not finish" when it has used c13CPULimit of
// processor time - normal is milliseconds - or when it sits blocked, nothing
// runnable and no processor time used, for c13BlockedFor. A run that got
// neither that much processor time nor blocked within c13WallMax gives no
// verdict.
const (
	c13CPULimit   = 20 * time.Second
	c13BlockedFor = 30 * time.Second
	c13WallMax    = 15 * time.Minute
)

// cliConfirm runs the three CLI commands on the input. It returns the command
// that does not finish ("" if all finish) and how that showed; starved is set
// when some run ended without a verdict.
func (r *c13Runner) cliConfirm(in []byte, _ time.Duration) string {
	f := filepath.Join(r.tmp, "in.y")
	os.WriteFile(f, in, 0o644)
	cli := r.c.CLI()
	for _, cmd := range [][]string{{"generate", "go", f, filepath.Join(r.tmp, "o.go")}, {"generate", "typescript", f, filepath.Join(r.tmp, "o.ts")}, {"debug", f}} {
		res := gen.RunCPU(c13CPULimit, c13BlockedFor, c13WallMax, r.tmp, cli, cmd...)
		switch {
		case res.Spun:
			r.how = fmt.Sprintf("still running after %.0f s of processor time", res.CPU.Seconds())
			return "yaccgo " + strings.Join(cmd[:len(cmd)-1], " ")
		case res.Blocked:
			r.how = fmt.Sprintf("blocked: no thread runnable and no processor time used for %.0f s", c13BlockedFor.Seconds())
			return "yaccgo " + strings.Join(cmd[:len(cmd)-1], " ")
		case res.Starved:
			r.c.Inconclusive("a CLI run got neither 20 s of processor time nor blocked within 15 min: machine too loaded for a verdict")
			return ""
		}
	}
	return ""
}

// check evaluates one input; returns a violation message or "".
func (r *c13Runner) check(in []byte, origin string) string {
	c := r.c
	c.Eval(1)
	if r.w == nil {
		w, err := startC13Worker()
		if err != nil {
			c.Infra("cannot start worker: %v", err)
			return ""
		}
		r.w = w
	}
	r.n++
	status, hung, died := r.w.eval(in, r.dl)
	if died && hung == "" {
		// worker died without a mode: restart once and retry
		r.w.kill()
		r.w = nil
		c.Inconclusive("worker died, input retried")
		w, err := startC13Worker()
		if err != nil {
			c.Infra("cannot restart worker: %v", err)
			return ""
		}
		r.w = w
		status, hung, died = r.w.eval(in, r.dl)
	}
	if hung != "" || died {
		r.w.kill()
		r.w = nil
		// confirm twice with the real CLI and a 3x budget
		c1 := r.cliConfirm(in, 30*time.Second)
		if c1 == "" {
			c.Inconclusive("worker missed its deadline but the CLI finished in time")
			return ""
		}
		c2 := r.cliConfirm(in, 30*time.Second)
		if c2 == "" {
			c.Inconclusive("deadline miss not confirmed by the second CLI run")
			return ""
		}
		return fmt.Sprintf("`%s` does not finish (%s; normal: milliseconds) on this %d-byte input [%s]; the in-process run was stuck in mode %q\ninput: %q", c1, r.how, len(in), origin, hung, clip(string(in), 600))
	}
	if r.n%50 == 0 {
		if cmd := r.cliConfirm(in, 30*time.Second); cmd != "" {
			if cmd2 := r.cliConfirm(in, 30*time.Second); cmd2 != "" {
				return fmt.Sprintf("`%s` does not finish (%s) on this %d-byte input [%s] (the in-process worker finished)\ninput: %q", cmd, r.how, len(in), origin, clip(string(in), 600))
			}
		}
		c.Class("also-run-through-cli")
	}
	c.Class("status:" + status)
	if strings.Contains(status, "F") {
		c.Nontrivial(Hash(string(in)))
		if c.WantSample() && len(in) > 20 {
			c.Sample(map[string]interface{}{"origin": origin, "input": clip(string(in), 300), "status_go_ts_debug": status})
		}
	}
	return ""
}

func loadCorpus(c *Ctx) (names []string, files [][]byte) {
	m, _ := filepath.Glob(filepath.Join(c.Verif, "corpus", "*.y"))
	sort.Strings(m)
	for _, f := range m {
		b, err := os.ReadFile(f)
		if err == nil {
			names = append(names, filepath.Base(f))
			files = append(files, b)
		}
	}
	if len(files) == 0 {
		c.Infra("corpus is empty")
	}
	return
}

func runC13Prefixes(c *Ctx) {
	names, files := loadCorpus(c)
	r := newC13Runner(c)
	defer r.close()
	total := 0
	k := 0
	c.P.Rule = "every prefix of every corpus file"
	for fi, b := range files {
		for n := 0; n <= len(b); n++ {
			k++
			if k%c.NShards != c.Shard {
				continue
			}
			total++
			in := b[:n]
			origin := fmt.Sprintf("prefix %d of corpus/%s", n, names[fi])
			if msg := r.check(in, origin); msg != "" {
				c.Violate(mkC13(in, origin), msg)
				r.hangs++
				if r.hangs >= r.stopAt {
					c.Note("stopped-early", "three non-terminating inputs found; remaining prefixes skipped")
					return
				}
			}
		}
	}
	if c.Shard == 0 {
		c.P.Exhaustive = append(c.P.Exhaustive, fmt.Sprintf("all prefixes of the %d corpus files", len(files)))
	}
}

var c13Inserts = []string{"{", "}", "/*", "*/", "//", "%{", "%}", "%%", "<", ">", "'", "\"", "$", ":", "|", ";", "%token", "%left", "%type", "%start", "%union", "%prec", "\n", " ", "\\", "$$", "$1", "@", "\x00", "\xff", "'\\", "%union {", "%token <", "-"}

func drawEdited(t *rapid.T, files [][]byte) ([]byte, string) {
	kind := rapid.IntRange(0, 9).Draw(t, "kind")
	if kind == 0 {
		// raw bytes biased to delimiters
		n := rapid.IntRange(0, 200).Draw(t, "n")
		var b []byte
		for i := 0; i < n; i++ {
			if rapid.Bool().Draw(t, "ins") {
				b = append(b, c13Inserts[rapid.IntRange(0, len(c13Inserts)-1).Draw(t, "tok")]...)
			} else {
				b = append(b, rapid.Byte().Draw(t, "byte"))
			}
		}
		return b, "delimiter soup"
	}
	fi := rapid.IntRange(0, len(files)-1).Draw(t, "file")
	b := append([]byte{}, files[fi]...)
	ne := rapid.IntRange(1, 4).Draw(t, "edits")
	for e := 0; e < ne; e++ {
		if len(b) == 0 {
			break
		}
		pos := rapid.IntRange(0, len(b)).Draw(t, "pos")
		switch rapid.IntRange(0, 4).Draw(t, "op") {
		case 0: // delete span
			l := rapid.IntRange(1, 40).Draw(t, "len")
			end := pos + l
			if end > len(b) {
				end = len(b)
			}
			b = append(b[:pos:pos], b[end:]...)
		case 1: // duplicate span
			l := rapid.IntRange(1, 60).Draw(t, "len")
			end := pos + l
			if end > len(b) {
				end = len(b)
			}
			span := append([]byte{}, b[pos:end]...)
			b = append(b[:end:end], append(span, b[end:]...)...)
		case 2: // insert token
			tok := c13Inserts[rapid.IntRange(0, len(c13Inserts)-1).Draw(t, "tok")]
			b = append(b[:pos:pos], append([]byte(tok), b[pos:]...)...)
		case 3: // replace byte
			if pos < len(b) {
				b[pos] = rapid.Byte().Draw(t, "byte")
			}
		case 4: // truncate
			b = b[:pos]
		}
	}
	return b, fmt.Sprintf("%d edit(s) of corpus file #%d", ne, fi)
}

func runC13Edits(c *Ctx) {
	_, files := loadCorpus(c)
	r := newC13Runner(c)
	defer r.close()
	c.P.Rule = "rapid-drawn edit scripts and delimiter soups"
	c.Rapid("edits", c.Pick(5000, 60000), func(t *rapid.T) {
		in, origin := drawEdited(t, files)
		if msg := r.check(in, origin); msg != "" {
			c.Fail(mkC13(in, origin), msg)
			t.Fatalf("%s", msg)
		}
	})
}

func replayC13(c *Ctx, raw json.RawMessage) string {
	var cs C13Case
	if m := decodeCase(raw, &cs); m != "" {
		return m
	}
	r := newC13Runner(c)
	defer r.close()
	return r.check(cs.bytes(), cs.Origin)
}

// ---- native coverage-guided fuzzing (thorough tier only)

func init() {
	Register(&Unit{Prop: "C13", Name: "nativefuzz",
		Shards:  func(tier string) int { return map[string]int{"quick": 0, "thorough": 1}[tier] },
		Timeout: func(string) time.Duration { return 40 * time.Minute },
		Run: func(c *Ctx) {
			c.P.Rule = "go test -fuzz FuzzFrontEnd (in-process ParseAndBuild under a 20 s watchdog, corpus = corpus/*.y + hostile fragments), bounded by -fuzztime; cannot be seeded: only saved crashers count, each confirmed with the CLI"
			hdir := filepath.Join(c.Verif, "harness")
			tdir := filepath.Join(hdir, "fuzz", "testdata", "fuzz", "FuzzFrontEnd")
			os.RemoveAll(filepath.Join(hdir, "fuzz", "testdata"))
			r := gen.Run(20*time.Minute, hdir, nil, "go", "test", "-tags", "verif", "-run", "^$", "-fuzz", "FuzzFrontEnd", "-fuzztime", envOr("VERIF_FUZZTIME", "300s"), "-parallel", "12", "./fuzz")
			execs := 0
			for _, m := range regexp.MustCompile(`execs: (\d+)`).FindAllStringSubmatch(r.Stdout, -1) {
				fmt.Sscan(m[1], &execs)
			}
			c.Eval(execs)
			c.ClassN("native-fuzz-executions", execs)
			files, _ := filepath.Glob(filepath.Join(tdir, "*"))
			rn := newC13Runner(c)
			defer rn.close()
			for _, f := range files {
				b, err := os.ReadFile(f)
				if err != nil {
					continue
				}
				in, ok := decodeFuzzFile(string(b))
				if !ok {
					continue
				}
				if cmd := rn.cliConfirm([]byte(in), 30*time.Second); cmd != "" {
					if cmd2 := rn.cliConfirm([]byte(in), 30*time.Second); cmd2 != "" {
						c.Violate(mkC13([]byte(in), "native fuzzing crasher "+filepath.Base(f)), fmt.Sprintf("`%s` does not finish (20 s of processor time or blocked) on this %d-byte input found by coverage-guided fuzzing\ninput: %q", cmd, len(in), clip(in, 600)))
						continue
					}
				}
				c.Inconclusive("fuzz crasher not confirmed by the CLI (watchdog under load?)")
			}
			os.RemoveAll(filepath.Join(hdir, "fuzz", "testdata"))
			if r.TimedOut {
				c.Inconclusive("fuzz run hit its wall-clock bound")
			} else if r.Exit != 0 && len(files) == 0 {
				c.Inconclusive("go test -fuzz ended with status " + fmt.Sprint(r.Exit) + " without a saved crasher: " + clip(lastLine(r.Stdout+r.Stderr), 200))
			}
		},
		Replay: replayC13,
	})
}

// decodeFuzzFile reads a Go fuzz corpus file with a single string argument.
func decodeFuzzFile(s string) (string, bool) {
	lines := strings.Split(s, "\n")
	if len(lines) < 2 || !strings.HasPrefix(lines[0], "go test fuzz v1") {
		return "", false
	}
	l := strings.TrimSpace(lines[1])
	if !strings.HasPrefix(l, "string(") || !strings.HasSuffix(l, ")") {
		return "", false
	}
	v, err := strconv.Unquote(l[len("string(") : len(l)-1])
	if err != nil {
		return "", false
	}
	return v, true
}
