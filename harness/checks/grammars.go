package checks

import (
	"encoding/json"
	"fmt"

	"pgregory.net/rapid"

	"verifharness/ref"
	"verifharness/spec"
	"verifharness/yg"
)

// GCase is a grammar case: the abstract spec and its rendered text. Replays
// use Text only.
type GCase struct {
	Family string     `json:"family"`
	Text   string     `json:"text"`
	Spec   *spec.Spec `json:"spec,omitempty"`
}

var stdCfg = spec.Cfg{MaxT: 5, MaxN: 5, MaxR: 12, MaxLen: 4, Lits: true}
var smallCfg = spec.Cfg{MaxT: 3, MaxN: 4, MaxR: 9, MaxLen: 3, Lits: true}

// DrawGrammar draws from a mixture of families. fams lists the families to
// mix: uniform productive nullable lalr separators prec (a productive or
// uniform grammar decorated with precedence lines).
func DrawGrammar(t *rapid.T, fams []string) GCase {
	f := rapid.SampledFrom(fams).Draw(t, "family")
	return DrawFamily(t, f)
}

func DrawFamily(t *rapid.T, f string) GCase {
	var s *spec.Spec
	name := f
	switch f {
	case "uniform":
		s = spec.Uniform(t, stdCfg)
	case "uniform-small":
		s = spec.Uniform(t, smallCfg)
	case "productive":
		s = spec.Productive(t, stdCfg)
	case "productive-small":
		s = spec.Productive(t, smallCfg)
	case "nullable":
		s = spec.Nullable(t)
	case "lalr":
		s = spec.LALRFamily(t)
	case "separators":
		var n string
		s, n = spec.Separator(t)
		name = "separators/" + n
	case "samehandle":
		s = spec.SameHandle(t)
	case "bigauto":
		s = spec.BigAuto(t)
	case "blowup":
		s = spec.Blowup(t)
	case "manysyms":
		s = spec.ManySyms(t)
	case "hugerule":
		s = spec.HugeRule(t)
	case "prec":
		if rapid.Bool().Draw(t, "precbase") {
			s = spec.Productive(t, smallCfg)
		} else {
			s = spec.Uniform(t, stdCfg)
		}
		spec.WithPrec(t, s)
	case "decl":
		s = spec.Productive(t, smallCfg)
		if rapid.Bool().Draw(t, "declprec") {
			spec.WithPrec(t, s)
		}
		spec.WithDecls(t, s)
		if rapid.Bool().Draw(t, "names") {
			spec.WithNames(t, s)
		}
	case "dup-rules":
		// duplicate and near-duplicate rules: reduce/reduce conflicts
		s = spec.Productive(t, smallCfg)
		nd := rapid.IntRange(1, 3).Draw(t, "ndup")
		for i := 0; i < nd; i++ {
			r := s.Rules[rapid.IntRange(0, len(s.Rules)-1).Draw(t, "dup")]
			r.RHS = append([]int{}, r.RHS...)
			if rapid.Bool().Draw(t, "otherlhs") {
				r.LHS = rapid.IntRange(0, len(s.NTs)-1).Draw(t, "duplhs")
			}
			at := rapid.IntRange(0, len(s.Rules)).Draw(t, "dupat")
			s.Rules = append(s.Rules[:at:at], append([]spec.Rule{r}, s.Rules[at:]...)...)
		}
		if rapid.Bool().Draw(t, "dupprec") {
			spec.WithPrec(t, s)
		}
	case "prec-sep":
		s, _ = spec.Separator(t)
		spec.WithPrec(t, s)
	default:
		panic("unknown family " + f)
	}
	return GCase{Family: name, Spec: s, Text: s.Render(spec.RenderOpts{})}
}

// TinyCount is the size of the exhaustively enumerated space: grammars over
// 2 terminals and 2 nonterminals with 1..maxRules rules, each rhs of length
// 0..2; start symbol n0.
func TinyCount(maxRules int) int {
	per := 2 * (1 + 4 + 16)
	n, p := 0, 1
	for r := 1; r <= maxRules; r++ {
		p *= per
		n += p
	}
	return n
}

// TinyGrammar decodes index i of the tiny space.
func TinyGrammar(i int, maxRules int) *spec.Spec {
	per := 2 * (1 + 4 + 16)
	nr := 1
	p := per
	for i >= p {
		i -= p
		p *= per
		nr++
	}
	s := &spec.Spec{Prologue: spec.DefPrologue, Union: spec.DefUnion, Epilogue: spec.DefEpilogue}
	s.Terms = []spec.Term{{Name: "T0", Decl: "token"}, {Name: "T1", Decl: "token"}}
	s.NTs = []spec.NonTerm{{Name: "n0"}, {Name: "n1"}}
	for r := 0; r < nr; r++ {
		code := i % per
		i /= per
		lhs := code % 2
		code /= 2
		var rhs []int
		switch {
		case code == 0:
		case code < 5:
			rhs = []int{code - 1}
		default:
			code -= 5
			rhs = []int{code / 4, code % 4}
		}
		s.Rules = append(s.Rules, spec.Rule{LHS: lhs, RHS: rhs, Prec: -1})
	}
	return s
}

// Built is the outcome of building a grammar text in-process.
type Built struct {
	Res *yg.Result
	A   *yg.Adapt
}

// BuildText runs yaccgo on the text. ok=false when yaccgo rejected it.
func BuildText(text string, debug bool) (*Built, bool, error) {
	res := yg.Build(text, debug)
	if !res.Accepted() {
		return &Built{Res: res}, false, nil
	}
	a, err := yg.NewAdapt(res.Root)
	if err != nil {
		return &Built{Res: res}, true, err
	}
	return &Built{Res: res, A: a}, true, nil
}

// adaptProblem turns an adapter error into either an infrastructure problem
// (the harness's assumptions about yaccgo's representation) or a violation
// text (the grammar tables are inconsistent in themselves).
func adaptProblem(c *Ctx, err error, text string) string {
	if _, ok := err.(*yg.ErrRepresentation); ok {
		c.Infra("%v", err)
		return ""
	}
	return fmt.Sprintf("yaccgo's grammar tables are malformed: %v\n%s", err, text)
}

func decodeCase(raw json.RawMessage, v interface{}) string {
	if err := json.Unmarshal(raw, v); err != nil {
		return fmt.Sprint("cannot decode case: ", err)
	}
	return ""
}

// matchStates maps yaccgo states onto reference LR(0) states by item set.
// Returns y2r (or an error text when the automata differ).
func matchStates(g *ref.CFG, lr0 []*ref.LR0State, ys []yg.YState) ([]int, string) {
	refIdx := map[string]int{}
	for i, st := range lr0 {
		refIdx[ref.ItemsKey(st.Items)] = i
	}
	y2r := make([]int, len(ys))
	seen := map[int]int{}
	for i, st := range ys {
		k := ref.ItemsKey(ref.SortItems(st.Items))
		r, ok := refIdx[k]
		if !ok {
			return nil, fmt.Sprintf("state %d has an item set that is not in the canonical LR(0) collection: %s", i, itemsString(g, st.Items))
		}
		if j, dup := seen[r]; dup {
			return nil, fmt.Sprintf("states %d and %d have the same item set: %s", j, i, itemsString(g, st.Items))
		}
		seen[r] = i
		y2r[i] = r
	}
	if len(ys) != len(lr0) {
		for r, st := range lr0 {
			if _, ok := seen[r]; !ok {
				return nil, fmt.Sprintf("%d states, canonical collection has %d; missing item set: %s", len(ys), len(lr0), itemsString(g, st.Items))
			}
		}
		return nil, fmt.Sprintf("%d states, canonical collection has %d", len(ys), len(lr0))
	}
	return y2r, ""
}

func itemsString(g *ref.CFG, its []ref.Item) string {
	s := ""
	for _, it := range its {
		r := g.Rules[it.R]
		l := "$accept"
		if r.LHS >= 0 {
			l = g.Names[r.LHS]
		}
		s += "[" + l + " ->"
		for i, x := range r.RHS {
			if i == it.D {
				s += " ."
			}
			s += " " + g.Names[x]
		}
		if it.D == len(r.RHS) {
			s += " ."
		}
		s += "] "
	}
	return s
}

func seq(n int) []int {
	o := make([]int, n)
	for i := range o {
		o[i] = i
	}
	return o
}

// rare draws an event of probability about 1/n. rapid's integer generators
// favour small and boundary values, so "IntRange(0, n-1) == 0" is far more
// likely than 1/n; a drawn 64-bit value is mixed first.
func rare(t *rapid.T, label string, n int) bool {
	x := rapid.Uint64().Draw(t, label)
	return ((x+0x9E37)*0x9E3779B97F4A7C15>>33)%uint64(n) == 0
}
