package checks

func init() {
	Describe("C01", &PropInfo{
		Rule: "tier G: grammars from the families productive/nullable/prec/prec-sep/separators/lalr/uniform (most have conflicts resolved by default rules or precedence), inputs = every string up to a length bound + sampled and mutated sentences, five output variants, generated code compiled and run unchanged; tier P: the dense table and the packed arrays driven by a reference LR driver on every string up to length 5. Non-trivial = an accepted (grammar, input) with >= 3 reductions; distinct by grammar text + input",
		Assumptions: []string{
			"the reductions a generated parser performs are observed through the actions (`rec(rule number)` is the first statement of every action); the derivation check itself is the statement of the property: apply the reductions backwards from the start symbol, each time to the rightmost nonterminal, and compare the result with the token sequence",
			"nothing is asserted here about rejected inputs",
		},
		Explanation: "oracle O-Deriv (ref.CheckDerivation) on every accepted input; redundantly the input must be a member by an Earley recogniser",
	})
	tgUnit("C01", "gen", []string{"productive", "nullable", "prec", "prec-sep", "separators", "lalr", "uniform", "longrule", "dup"}, 36, 500, 4, 8, 150, 12)
}
