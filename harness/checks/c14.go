package checks

import (
	"bytes"
	"encoding/json"
	"fmt"
	"os"
	"path/filepath"
	"strings"
	"time"

	"pgregory.net/rapid"

	"verifharness/gen"
	"verifharness/spec"
	"verifharness/yg"
)

func init() {
	Describe("C14", &PropInfo{
		Rule: "grammars from the families productive/prec/separators/lalr/nullable (rapid); each accepted grammar is generated several times per option set (go, go -u, go -o, go -o -u, typescript) and all output files must be byte-identical; non-trivial when the grammar has >= 3 automatically numbered named tokens or a %type'd nonterminal besides them, and >= 1 state with >= 3 successors (the places where map iteration order can leak); distinct by grammar text",
		Assumptions: []string{
			"Go randomises map iteration per range statement, so every repetition (in one process or in separate processes) is an independent sample of the 'schedule'; a dependence on the order of a 2-element map is missed by K repetitions with probability 2^-(K-1) per grammar: this is sampling, not control of the schedule",
			"the in-process unit calls Builder.TemplateGenFromString / TsGenFromString with the mode switches the CLI sets; the cli unit runs the real command in separate processes",
		},
		Explanation: "differential (run vs run): inproc unit = R repetitions x 5 option sets per grammar inside one process, then one more generation per option set compared with a fresh CLI process (a process that generated other variants before must write the same bytes); cli unit = K separate `yaccgo generate` processes per grammar and option set; only the output files are compared (the property speaks of output files), not the messages on stdout",
	})
	fams := []string{"productive", "prec", "separators", "lalr", "nullable", "productive-small", "decl"}
	Register(&Unit{Prop: "C14", Name: "inproc",
		Shards: func(tier string) int { return map[string]int{"quick": 8, "thorough": 16}[tier] },
		Run: func(c *Ctx) {
			c.P.Rule = "R=4 in-process repetitions x 5 option sets"
			c.Rapid("det", c.Pick(300, 6000), func(t *rapid.T) {
				gc := DrawGrammar(t, fams)
				cs := C14Case{GCase: gc, Reps: 4, Mode: "inproc"}
				if msg := evalC14(c, cs); msg != "" {
					c.Fail(cs, msg)
					t.Fatalf("%s", msg)
				}
			})
		},
		Replay: replayC14,
	})
	Register(&Unit{Prop: "C14", Name: "cli",
		Shards: func(tier string) int { return map[string]int{"quick": 8, "thorough": 16}[tier] },
		Run: func(c *Ctx) {
			c.P.Rule = "K=6 separate CLI processes x 5 option sets"
			c.Rapid("det", c.Pick(40, 800), func(t *rapid.T) {
				gc := DrawGrammar(t, fams)
				cs := C14Case{GCase: gc, Reps: 6, Mode: "cli"}
				if msg := evalC14(c, cs); msg != "" {
					c.Fail(cs, msg)
					t.Fatalf("%s", msg)
				}
			})
		},
		Replay: replayC14,
	})
}

type C14Case struct {
	GCase
	Reps int    `json:"reps"`
	Mode string `json:"mode"`
}

func replayC14(c *Ctx, raw json.RawMessage) string {
	var cs C14Case
	if m := decodeCase(raw, &cs); m != "" {
		return m
	}
	// the failure depends on map iteration order: sample more often
	cs.Reps *= 4
	return evalC14(c, cs)
}

func evalC14(c *Ctx, cs C14Case) string {
	c.Eval(1)
	dir, err := os.MkdirTemp(c.OutDir, "c14-")
	if err != nil {
		c.Infra("mkdtemp: %v", err)
		return ""
	}
	defer os.RemoveAll(dir)
	in := filepath.Join(dir, "g.y")
	os.WriteFile(in, []byte(cs.Text), 0o644)
	accepted := false
	for _, v := range gen.AllVariants {
		var first []byte
		firstFailed := false
		for k := 0; k < cs.Reps; k++ {
			out := filepath.Join(dir, fmt.Sprintf("out-%s-%d.txt", v.Name, k))
			var failed bool
			if cs.Mode == "cli" {
				r := gen.Generate(c.CLI(), v, in, out, 60*time.Second)
				if r.TimedOut {
					c.Inconclusive("generation timed out (C13's business)")
					return ""
				}
				if r.EnvironmentFailure() {
					c.Infra("the CLI failed for a reason of the machine, not of its input: exit %d, %s", r.Exit, clip(lastLine(r.Stderr), 200))
					return ""
				}
				failed = r.Failed()
			} else {
				r := yg.Generate(cs.Text, v.Name, out)
				failed = r.Failed()
			}
			var b []byte
			if !failed {
				b, err = os.ReadFile(out)
				if err != nil {
					return fmt.Sprintf("variant %s: generation reported success but wrote no file: %v\n%s", v.Name, err, cs.Text)
				}
			}
			if k == 0 {
				first, firstFailed = b, failed
				if !failed {
					accepted = true
				}
				continue
			}
			if failed != firstFailed {
				return fmt.Sprintf("variant %s: run 1 %s, run %d %s on the same input\n%s", v.Name, okfail(firstFailed), k+1, okfail(failed), cs.Text)
			}
			if !bytes.Equal(b, first) {
				return fmt.Sprintf("variant %s: output of run %d differs from run 1\n%s\ngrammar:\n%s", v.Name, k+1, firstDiff(first, b), cs.Text)
			}
		}
	}
	if cs.Mode == "inproc" && accepted {
		// "in the same or in different processes": after the in-process runs above
		// (which went through every option set), one more in-process generation per
		// option set must equal what a fresh CLI process writes
		for _, v := range gen.AllVariants {
			a := filepath.Join(dir, "again-"+v.Name)
			b := filepath.Join(dir, "cli-"+v.Name)
			ra := yg.Generate(cs.Text, v.Name, a)
			rb := gen.Generate(c.CLI(), v, in, b, 60*time.Second)
			if rb.TimedOut {
				c.Inconclusive("generation timed out (C13's business)")
				continue
			}
			if rb.EnvironmentFailure() {
				c.Infra("the CLI failed for a reason of the machine, not of its input: exit %d, %s", rb.Exit, clip(lastLine(rb.Stderr), 200))
				return ""
			}
			if ra.Failed() != rb.Failed() {
				return fmt.Sprintf("variant %s: in-process generation %s, a fresh CLI process %s on the same input\n%s", v.Name, okfail(ra.Failed()), okfail(rb.Failed()), cs.Text)
			}
			if ra.Failed() {
				continue
			}
			ba, _ := os.ReadFile(a)
			bb, _ := os.ReadFile(b)
			if !bytes.Equal(ba, bb) {
				return fmt.Sprintf("variant %s: the file generated in a process that had generated other variants before differs from the file a fresh process writes\n%s\ngrammar:\n%s", v.Name, firstDiff(bb, ba), cs.Text)
			}
		}
		c.Class("inproc-equals-fresh-process")
	}
	if !accepted {
		c.Class("rejected-by-yaccgo")
		return ""
	}
	c.Class("accepted")
	c.Class("family:" + familyRoot(cs.Family))
	if c14Nontrivial(cs.Spec, cs.Text) {
		c.Nontrivial(Hash(cs.Text))
		if c.WantSample() {
			c.Sample(map[string]interface{}{"family": cs.Family, "grammar": cs.Text, "mode": cs.Mode, "repetitions": cs.Reps, "variants": 5})
		}
	}
	return ""
}

func okfail(f bool) string {
	if f {
		return "failed"
	}
	return "succeeded"
}

func firstDiff(a, b []byte) string {
	la, lb := strings.Split(string(a), "\n"), strings.Split(string(b), "\n")
	for i := 0; i < len(la) && i < len(lb); i++ {
		if la[i] != lb[i] {
			return fmt.Sprintf("first difference at line %d:\n  run 1: %s\n  other: %s", i+1, clip(la[i], 200), clip(lb[i], 200))
		}
	}
	return fmt.Sprintf("outputs have %d and %d lines", len(la), len(lb))
}

func clip(s string, n int) string {
	if len(s) > n {
		return s[:n] + "..."
	}
	return s
}

// c14Nontrivial: >= 3 symbols that get automatic numbers and >= 1 state with
// >= 3 successors (measured on the reference automaton of the spec).
func c14Nontrivial(s *spec.Spec, text string) bool {
	if s == nil {
		return false
	}
	auto := 0
	for _, t := range s.Terms {
		if !t.IsLit() && t.Code == 0 {
			auto++
		}
	}
	if auto < 3 {
		return false
	}
	g := s.CFG()
	lr0, ok := g.BuildLR0(3000)
	if !ok {
		return true
	}
	for _, st := range lr0 {
		if len(st.Goto) >= 3 {
			return true
		}
	}
	return false
}
