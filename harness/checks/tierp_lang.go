package checks

import (
	"encoding/json"
	"fmt"

	"pgregory.net/rapid"

	lalr "github.com/acekingke/yaccgo/LALR"

	"verifharness/ref"
	"verifharness/spec"
	"verifharness/yg"
)

// Tier P language-level units for C01 and C02: yaccgo's dense table and its
// packed arrays are driven by a reference LR driver (yg.Drive) on every string
// up to a length bound; the oracles are the same as in tier G.

func init() {
	for _, p := range []string{"C01", "C02"} {
		prop := p
		fams := []string{"uniform", "productive", "nullable", "prec", "prec-sep", "separators", "lalr", "dup-rules", "bigauto", "manysyms", "hugerule"}
		if prop == "C02" {
			fams = []string{"lalr", "separators", "separators", "samehandle", "samehandle", "productive-small", "nullable", "uniform-small", "bigauto", "manysyms", "hugerule"}
		}
		replay := func(c *Ctx, raw json.RawMessage) string {
			var gc GCase
			if m := decodeCase(raw, &gc); m != "" {
				return m
			}
			return evalTables(c, gc, prop)
		}
		Register(&Unit{Prop: prop, Name: "tables",
			Shards: func(tier string) int { return map[string]int{"quick": 8, "thorough": 16}[tier] },
			Run: func(c *Ctx) {
				c.P.Rule = "in-process: dense table and packed arrays under a reference LR driver, every string up to a length bound (<= 3000 strings per grammar)"
				c.Rapid("tables", c.Pick(600, 12000), func(t *rapid.T) {
					gc := DrawGrammar(t, fams)
					if rapid.IntRange(0, 3).Draw(t, "rename") == 0 {
						// names must not matter (a user nonterminal may be called "start")
						spec.WithNames(t, gc.Spec)
						gc.Text = gc.Spec.Render(spec.RenderOpts{})
					}
					if msg := evalTables(c, gc, prop); msg != "" {
						c.Fail(gc, msg)
						t.Fatalf("%s", msg)
					}
				})
			},
			Replay: replay,
		})
		Register(&Unit{Prop: prop, Name: "tables-tiny",
			Shards: func(tier string) int { return map[string]int{"quick": 4, "thorough": 16}[tier] },
			Run: func(c *Ctx) {
				maxRules := c.Pick(2, 3)
				n := TinyCount(maxRules)
				c.P.Rule = fmt.Sprintf("all %d grammars over 2 terminals, 2 nonterminals, <= %d rules, rhs length <= 2, every string up to length 6", n, maxRules)
				for i := c.Shard; i < n; i += c.NShards {
					s := TinyGrammar(i, maxRules)
					gc := GCase{Family: "tiny", Spec: s, Text: s.Render(spec.RenderOpts{})}
					if msg := evalTables(c, gc, prop); msg != "" {
						c.Violate(gc, msg)
						return
					}
				}
				if c.Shard == 0 {
					c.P.Exhaustive = append(c.P.Exhaustive, c.P.Rule)
				}
			},
			Replay: replay,
		})
	}
}

func evalTables(c *Ctx, gc GCase, prop string) string {
	if gc.Spec == nil {
		return "case has no abstract spec"
	}
	s := gc.Spec
	res := yg.Build(gc.Text, false)
	if !res.Accepted() {
		c.Eval(1)
		c.Class("rejected-by-yaccgo")
		return ""
	}
	l := res.Root.LALR1
	G := l.G
	if len(G.ProductoinRules) != len(s.Rules)+1 {
		c.Exclude("rule count differs from the spec (C10's verdict)")
		return ""
	}
	ids := make([]int, len(s.Terms))
	for i, t := range s.Terms {
		sy := G.SymbolsMap[t.YName()]
		if sy == nil {
			c.Exclude("terminal missing (C10's verdict)")
			return ""
		}
		ids[i] = int(sy.ID)
	}
	g := s.CFG()
	rf := refFacts(s)
	if prop == "C02" && (!rf.conflictFree || rf.hasPrec) {
		c.Eval(1)
		c.Class("not-LALR(1)-by-the-reference: skipped")
		return ""
	}
	c.Class("class:" + rf.class)
	lookups := []struct {
		name string
		f    func(st, a int) (int, error)
	}{{"dense table", func(st, a int) (int, error) {
		if st < 0 || st >= len(l.GTable) || a < 0 || a >= len(l.GTable[st]) {
			return 0, fmt.Errorf("lookup (%d,%d) outside the table", st, a)
		}
		return l.GTable[st][a], nil
	}}}
	if l.NeedPacked {
		lookups = append(lookups, struct {
			name string
			f    func(st, a int) (int, error)
		}{"packed arrays", func(st, a int) (int, error) { return yg.PackedLookup(l, st, a) }})
	}
	k := ref.LenFor(g.NT, 3000)
	if k > 6 {
		k = 6
	}
	msg := ""
	ref.AllStrings(g.NT, k, func(w []int) bool {
		in := make([]int, len(w))
		for i, x := range w {
			in[i] = ids[x]
		}
		var mem, memKnown bool
		for _, lk := range lookups {
			c.Eval(1)
			r := yg.Drive(l, lk.f, in, 20000)
			if r.Bad != "" {
				// the table cannot be driven to a verdict on this input: no acceptance,
				// so nothing for C01; for C02 it matters only if the input is a sentence
				if prop == "C02" {
					if !memKnown {
						mem, memKnown = g.Member(w), true
					}
					if mem {
						msg = fmt.Sprintf("%s does not accept the sentence %s of an LALR(1) grammar (class %s): %s", lk.name, inputNames(s, w), rf.class, r.Bad)
						return false
					}
				}
				c.Inconclusive("table run ended without a verdict: " + firstWord(r.Bad) + " (C06/C09's business)")
				continue
			}
			if r.Accepted {
				if err := g.CheckDerivation(r.Reds, append([]int{}, w...)); err != nil {
					if prop == "C01" {
						msg = fmt.Sprintf("%s accepts %s but the reductions %v are not a rightmost derivation in reverse: %v", lk.name, inputNames(s, w), r.Reds, err)
						return false
					}
				} else if len(r.Reds) >= 3 && prop == "C01" {
					c.Nontrivial(Hash("C01p", gc.Text, fmt.Sprint(w)))
				}
			} else if prop == "C02" {
				if !memKnown {
					mem, memKnown = g.Member(w), true
				}
				if mem {
					msg = fmt.Sprintf("%s rejects the sentence %s of an LALR(1) grammar (class %s)", lk.name, inputNames(s, w), rf.class)
					return false
				}
			}
			if prop == "C02" && r.Accepted && len(w) >= 2 {
				c.Nontrivial(Hash("C02p", gc.Text, fmt.Sprint(w)))
			}
		}
		return true
	})
	// a few derived sentences as well (long rules and large alphabets are out of
	// reach of the exhaustive strings); choices are a function of the grammar text
	if msg == "" {
		h := Hash(gc.Text)
		for k := 0; k < 6 && msg == ""; k++ {
			ch := make([]int, 40)
			for j := range ch {
				h = h*6364136223846793005 + 1442695040888963407
				ch[j] = int(h >> 33 % 8)
			}
			w := g.Derive(ch, 700)
			if w == nil {
				break
			}
			in := make([]int, len(w))
			for i, x := range w {
				in[i] = ids[x]
			}
			for _, lk := range lookups {
				c.Eval(1)
				r := yg.Drive(l, lk.f, in, 200000)
				if r.Bad != "" {
					if prop == "C02" {
						msg = fmt.Sprintf("%s does not accept the derived sentence %s of an LALR(1) grammar (class %s): %s", lk.name, clip(inputNames(s, w), 300), rf.class, r.Bad)
					}
					continue
				}
				if r.Accepted {
					if err := g.CheckDerivation(r.Reds, append([]int{}, w...)); err != nil && prop == "C01" {
						msg = fmt.Sprintf("%s accepts the derived sentence %s but the reductions are not a rightmost derivation in reverse: %v", lk.name, clip(inputNames(s, w), 300), err)
					}
				} else if prop == "C02" {
					msg = fmt.Sprintf("%s rejects the derived sentence %s of an LALR(1) grammar (class %s)", lk.name, clip(inputNames(s, w), 300), rf.class)
				}
			}
			// near misses of the sentence (one token replaced, dropped or doubled):
			// most are non-sentences, and a wrong acceptance is most likely close to
			// a sentence. With a large alphabet the exhaustive strings above are
			// very short, so this is the only place where such inputs are met.
			if prop == "C01" && msg == "" && len(w) <= 40 {
				msg = nearMisses(c, s, g, l, lookups[0].name, lookups[0].f, ids, w, 600)
			}
		}
	}
	if msg != "" {
		return msg + "\n" + gc.Text
	}
	if c.WantSample() && rf.class != "" {
		c.Sample(map[string]interface{}{"family": gc.Family, "grammar": gc.Text, "class": rf.class, "strings_up_to_length": k, "packed": l.NeedPacked})
	}
	return ""
}

// nearMisses drives the table over single-token edits of the sentence w (at
// most max of them, spread evenly over the edit space) and checks the
// derivation of every accepted one.
func nearMisses(c *Ctx, s *spec.Spec, g *ref.CFG, l *lalr.LALR1, name string, look func(st, a int) (int, error), ids []int, w []int, max int) string {
	nT := len(ids)
	total := len(w)*nT + len(w) + len(w)
	step := 1
	if total > max {
		step = total/max + 1
	}
	for e := int(Hash(fmt.Sprint(w)) % uint64(step)); e < total; e += step {
		var v []int
		switch {
		case e < len(w)*nT: // replace
			i, t := e/nT, e%nT
			if w[i] == t {
				continue
			}
			v = append([]int{}, w...)
			v[i] = t
		case e < len(w)*nT+len(w): // drop
			i := e - len(w)*nT
			v = append(append([]int{}, w[:i]...), w[i+1:]...)
		default: // double
			i := e - len(w)*nT - len(w)
			v = append(append(append([]int{}, w[:i+1]...), w[i]), w[i+1:]...)
		}
		in := make([]int, len(v))
		for i, x := range v {
			in[i] = ids[x]
		}
		c.Eval(1)
		r := yg.Drive(l, look, in, 200000)
		if r.Bad == "" && r.Accepted {
			if err := g.CheckDerivation(r.Reds, append([]int{}, v...)); err != nil {
				return fmt.Sprintf("%s accepts %s (a one-token edit of a sentence) but the reductions %v are not a rightmost derivation in reverse: %v", name, clip(inputNames(s, v), 300), clipInts(r.Reds), err)
			}
		}
	}
	return ""
}

func clipInts(v []int) string {
	if len(v) > 40 {
		return fmt.Sprint(v[:40]) + "..."
	}
	return fmt.Sprint(v)
}

func firstWord(s string) string {
	for i := 0; i < len(s); i++ {
		if s[i] == ' ' {
			return s[:i]
		}
	}
	return s
}
