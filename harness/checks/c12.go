package checks

import (
	"encoding/json"
	"fmt"
	"os"
	"path/filepath"
	"time"

	"pgregory.net/rapid"

	"verifharness/gen"
	"verifharness/spec"
	"verifharness/yg"
)

func init() {
	Describe("C12", &PropInfo{
		Rule: "grammars: (a) uniform random grammars (about a fifth have an unproductive nonterminal by chance), (b) productive-by-construction grammars incl. nullable-heavy ones, (c) productive grammars with one injected fault: an unproductive nonterminal at the start / deep / mutually recursive / behind nullable siblings / unreachable, or a symbol that is used but neither declared nor defined; identifier pools incl. names equal to directive keywords; (d) the exhaustively enumerated tiny space. Non-trivial = a rejected grammar whose faulty nonterminal has a nullable sibling or is unreachable, or an accepted grammar with >= 2 nullable nonterminals and recursion; distinct by grammar text",
		Assumptions: []string{
			"oracle: accepted <=> every rhs symbol is a declared token or the lhs of some rule, and every nonterminal (reachable or not) derives a terminal string (ref.Productive, a textbook fixpoint)",
			"only refusal is asserted (error return, diagnostic panic, non-zero CLI exit), not the wording",
			"grammars stay far below the 2000-state limit",
		},
		Explanation: "both directions: usable grammars must be processed, unusable ones refused; in-process for volume, and a sample of each class through the CLI (exit status)",
	})
	replay := func(c *Ctx, raw json.RawMessage) string {
		var cs C12Case
		if m := decodeCase(raw, &cs); m != "" {
			return m
		}
		return evalC12(c, cs, true)
	}
	Register(&Unit{Prop: "C12", Name: "random",
		Shards: func(tier string) int { return map[string]int{"quick": 8, "thorough": 16}[tier] },
		Run: func(c *Ctx) {
			c.P.Rule = "random, productive and fault-injected grammars"
			n := 0
			c.Rapid("usable", c.Pick(10000, 100000), func(t *rapid.T) {
				cs := drawC12(t)
				n++
				if msg := evalC12(c, cs, n%40 == 0); msg != "" {
					c.Fail(cs, msg)
					t.Fatalf("%s", msg)
				}
			})
		},
		Replay: replay,
	})
	Register(&Unit{Prop: "C12", Name: "tiny",
		Shards: func(tier string) int { return map[string]int{"quick": 4, "thorough": 16}[tier] },
		Run: func(c *Ctx) {
			maxRules := c.Pick(3, 4)
			n := TinyCount(maxRules)
			c.P.Rule = fmt.Sprintf("all %d grammars over 2 terminals, 2 nonterminals, <= %d rules, rhs length <= 2", n, maxRules)
			for i := c.Shard; i < n; i += c.NShards {
				s := TinyGrammar(i, maxRules)
				cs := C12Case{GCase: GCase{Family: "tiny", Spec: s, Text: s.Render(spec.RenderOpts{})}}
				if msg := evalC12(c, cs, false); msg != "" {
					c.Violate(cs, msg)
					return
				}
			}
			if c.Shard == 0 {
				c.P.Exhaustive = append(c.P.Exhaustive, c.P.Rule)
			}
		},
		Replay: replay,
	})
}

type C12Case struct {
	GCase
	Fault *spec.Fault `json:"fault,omitempty"`
}

func drawC12(t *rapid.T) C12Case {
	switch rapid.IntRange(0, 5).Draw(t, "kind") {
	case 0:
		return C12Case{GCase: DrawFamily(t, "uniform")}
	case 1:
		return C12Case{GCase: DrawFamily(t, "nullable")}
	case 2:
		gc := DrawFamily(t, "productive")
		if rapid.Bool().Draw(t, "decls") {
			// tags, explicit numbers, %type lines on tokens and nonterminals, precedence lines
			if rapid.Bool().Draw(t, "prec") {
				spec.WithPrec(t, gc.Spec)
			}
			spec.WithDecls(t, gc.Spec)
		}
		if rapid.Bool().Draw(t, "names") {
			spec.WithNames(t, gc.Spec)
		}
		gc.Text = gc.Spec.Render(spec.RenderOpts{})
		return C12Case{GCase: gc}
	default:
		var s *spec.Spec
		if rapid.Bool().Draw(t, "nullablebase") {
			s = spec.Nullable(t)
		} else {
			s = spec.Productive(t, smallCfg)
		}
		f := spec.InjectUnusable(t, s)
		if rapid.Bool().Draw(t, "names") {
			spec.WithNames(t, s)
		}
		return C12Case{GCase: GCase{Family: "faulty/" + f.Kind, Spec: s, Text: s.Render(spec.RenderOpts{})}, Fault: &f}
	}
}

// usable evaluates the reference predicate on the spec.
func usable(s *spec.Spec) (ok bool, why string, interesting bool) {
	nt := len(s.Terms)
	hasRule := make([]bool, len(s.NTs))
	for _, r := range s.Rules {
		hasRule[r.LHS] = true
	}
	used := make([]bool, len(s.NTs))
	for _, r := range s.Rules {
		for _, x := range r.RHS {
			if x >= nt {
				used[x-nt] = true
			}
		}
	}
	used[s.Start] = true
	for i := range s.NTs {
		if used[i] && !hasRule[i] {
			return false, fmt.Sprintf("symbol %s is used but is neither a token nor defined by a rule", s.NTs[i].Name), false
		}
	}
	g := s.CFG()
	p := g.Productive()
	null := g.Nullable()
	reach := g.Reachable()
	for i := range s.NTs {
		if hasRule[i] && !p[nt+i] {
			// interesting: unreachable, or some rule of it has a nullable sibling
			in := !reach[nt+i]
			for _, r := range s.Rules {
				if r.LHS == i {
					for _, x := range r.RHS {
						if null[x] {
							in = true
						}
					}
				}
			}
			return false, fmt.Sprintf("nonterminal %s derives no terminal string", s.NTs[i].Name), in
		}
	}
	nNull, rec := 0, false
	for i := range s.NTs {
		if null[nt+i] {
			nNull++
		}
	}
	for _, r := range s.Rules {
		for _, x := range r.RHS {
			if x == nt+r.LHS {
				rec = true
			}
		}
	}
	return true, "", nNull >= 2 && rec
}

func evalC12(c *Ctx, cs C12Case, alsoCLI bool) string {
	c.Eval(1)
	if cs.Spec == nil {
		return "case has no abstract spec"
	}
	// a nonterminal that is never used and has no rule does not exist in the text
	want, why, interesting := usable(cs.Spec)
	res := yg.Build(cs.Text, false)
	got := res.Accepted()
	if got && !want {
		return fmt.Sprintf("yaccgo processed an unusable grammar (%s)\n%s", why, cs.Text)
	}
	if !got && want {
		return fmt.Sprintf("yaccgo refused a usable grammar: %s\n%s", clip(res.Diagnostic(), 300), cs.Text)
	}
	if alsoCLI {
		dir, err := os.MkdirTemp(c.OutDir, "c12-")
		if err == nil {
			defer os.RemoveAll(dir)
			in := filepath.Join(dir, "g.y")
			os.WriteFile(in, []byte(cs.Text), 0o644)
			v := gen.VGo
			if Hash(cs.Text)%2 == 0 {
				v = gen.VTs
			}
			r := gen.Generate(c.CLI(), v, in, filepath.Join(dir, "g.out"), 60*time.Second)
			if r.TimedOut {
				c.Inconclusive("CLI timed out")
			} else if r.EnvironmentFailure() {
				c.Infra("the CLI failed for a reason of the machine, not of its input: exit %d, %s", r.Exit, clip(lastLine(r.Stderr), 200))
			} else if r.Failed() == want {
				return fmt.Sprintf("CLI exit status %d on a grammar that is usable=%v (%s)\nstderr: %s\n%s", r.Exit, want, why, clip(r.Stderr, 300), cs.Text)
			} else {
				c.Class("also-through-cli:" + v.Name)
			}
		}
	}
	if want {
		c.Class("usable-accepted")
	} else {
		c.Class("unusable-refused")
		if cs.Fault != nil {
			c.Class("fault:" + cs.Fault.Kind)
		}
	}
	if interesting {
		c.Nontrivial(Hash(cs.Text))
		if c.WantSample() {
			c.Sample(map[string]interface{}{"family": cs.Family, "grammar": cs.Text, "usable": want, "why": why, "diagnostic": clip(res.Diagnostic(), 200)})
		}
	}
	return ""
}
