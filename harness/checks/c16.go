package checks

import (
	"encoding/json"
	"fmt"
	"os"
	"strings"

	"pgregory.net/rapid"

	"verifharness/gen"
	"verifharness/spec"
)

func init() {
	Describe("C16", &PropInfo{
		Rule: "accepted grammars (productive by construction; small ones that are emitted with the dense table and larger ones that are packed) with identifier pools (unicode letters, underscores, digits, very long names, names starting with directive keywords), literals drawn from every printable ASCII character the lexer can read (and occasionally a line feed or tab written between quotes), random tags / explicit token numbers / precedence lines / %prec, rules of length 0-5 (and, in a quarter of the cases, one rule of 10-13 symbols whose action uses $10 and beyond) with and without actions; the %union body is written over several lines or on one line; the prologue only names the package and imports fmt (in one %{ %} block or split over two), the epilogue only defines GetToken (and an empty main so that the Go toolchain can link); all five variants are generated and the emitted files compiled with `go build` / loaded by node unchanged. Non-trivial = grammar with >= 1 literal outside [A-Za-z0-9], >= 1 identifier with a non-ASCII letter or underscore and >= 1 untagged symbol; distinct by grammar text",
		Assumptions: []string{
			"token names avoid Go/TypeScript keywords, predeclared identifiers and the names used by the emitted skeleton (they become constants in the user's own package); $$/$n only address symbols that carry a tag; action text is valid in the target language",
			"TypeScript: 'loads' means node >= 22 strips the types, parses and executes the top level of the file without error (there is no tsc in the sandbox)",
		},
		Explanation: "oracle = the toolchain: one batch `go build` over all generated packages, diagnostics attributed per package; node for the TypeScript file",
	})
	Register(&Unit{Prop: "C16", Name: "build",
		Shards: func(tier string) int { return map[string]int{"quick": 4, "thorough": 8}[tier] },
		Run: func(c *Ctx) {
			c.P.Rule = "names x literals x tags x rule shapes x five variants"
			n := c.Pick(48, 800)
			g := rapid.Custom(drawC16)
			batch := 24
			for done := 0; done < n; done += batch {
				var cases []*C16Case
				for i := 0; i < batch && done+i < n; i++ {
					cases = append(cases, g.Example(int(c.SubSeed("case", done+i)>>1)))
				}
				if runC16(c, cases) {
					return
				}
			}
		},
		Replay: func(c *Ctx, raw json.RawMessage) string {
			var cs C16Case
			if m := decodeCase(raw, &cs); m != "" {
				return m
			}
			c16Msg = ""
			runC16(c, []*C16Case{&cs})
			return c16Msg
		},
	})
}

type C16Case struct {
	Spec *spec.Spec `json:"spec"`
	Text string     `json:"grammar_text_go"`
}

var c16Msg string

func drawC16(t *rapid.T) *C16Case {
	var s *spec.Spec
	switch rapid.IntRange(0, 3).Draw(t, "size") {
	case 0:
		s = spec.Productive(t, spec.Cfg{MaxT: 2, MaxN: 2, MaxR: 3, MaxLen: 2, Lits: true})
	case 1:
		s = spec.Productive(t, stdCfg)
	default:
		s = spec.Productive(t, smallCfg)
	}
	if rapid.IntRange(0, 3).Draw(t, "longrule") == 0 {
		// rules of every length: 10-13 symbols, the action will use $10 and beyond
		k := rapid.IntRange(10, 13).Draw(t, "longlen")
		rhs := make([]int, k)
		for j := range rhs {
			rhs[j] = rapid.IntRange(0, len(s.Terms)+len(s.NTs)-1).Draw(t, "longsym")
		}
		s.Rules = append(s.Rules, spec.Rule{LHS: rapid.IntRange(0, len(s.NTs)-1).Draw(t, "longlhs"), RHS: rhs, Prec: -1})
	}
	if rapid.Bool().Draw(t, "prec") {
		spec.WithPrec(t, s)
	}
	spec.WithDecls(t, s)
	spec.AssignLinSem(t, s)
	for i := range s.Rules {
		if tx := s.Rules[i].Sem.Text(); tx != "" && rapid.IntRange(0, 3).Draw(t, "hasaction") > 0 {
			s.Rules[i].Action = "{ " + tx + " }"
		}
	}
	if rapid.IntRange(0, 3).Draw(t, "names") > 0 {
		spec.WithNames(t, s)
	}
	s.OneLineUnion = rapid.IntRange(0, 2).Draw(t, "onelineunion") == 0
	s.TwoPrologues = rapid.IntRange(0, 2).Draw(t, "twoprologues") == 0
	if rapid.IntRange(0, 5).Draw(t, "ctrlit") == 0 {
		// a line feed or tab between quotes is the only way to write those tokens as literals
		// (not one whose code, 10 or 9, the specification gives to a named token)
		var ctrl []string
		for _, c := range []string{"\n", "\t"} {
			free := true
			for _, tm := range s.Terms {
				if !tm.IsLit() && tm.Code == int(c[0]) {
					free = false
				}
			}
			if free {
				ctrl = append(ctrl, c)
			}
		}
		for i := range s.Terms {
			if s.Terms[i].IsLit() && len(ctrl) > 0 {
				s.Terms[i].Lit = rapid.SampledFrom(ctrl).Draw(t, "ctrl")
				break
			}
		}
	}
	cs := &C16Case{Spec: s}
	s.SetLang("go")
	cs.Text = s.Render(spec.RenderOpts{})
	return cs
}

func c16Texts(s *spec.Spec) map[string]string {
	texts := map[string]string{}
	g := s.Clone()
	g.Fields = s.Fields
	g.SetLang("go")
	g.Epilogue += "\nfunc main() {}\n"
	gt := g.Render(spec.RenderOpts{})
	for _, v := range gen.GoVariants {
		texts[v.Name] = gt
	}
	t := s.Clone()
	t.Fields = s.Fields
	t.SetLang("ts")
	texts["ts"] = t.Render(spec.RenderOpts{})
	return texts
}

func runC16(c *Ctx, cases []*C16Case) bool {
	dir, err := os.MkdirTemp(c.OutDir, "c16-")
	if err != nil {
		c.Infra("mkdtemp: %v", err)
		return true
	}
	defer os.RemoveAll(dir)
	var jobs []*gen.Job
	for i, cs := range cases {
		jobs = append(jobs, &gen.Job{ID: fmt.Sprintf("g%d", i), Spec: cs.Spec, Variants: gen.AllVariants, Texts: c16Texts(cs.Spec)})
	}
	env := c.GenEnv()
	if c.P.Infra != "" {
		return true
	}
	res, err := gen.RunBatch(env, dir, jobs)
	if err != nil {
		c.Infra("batch: %v", err)
		return true
	}
	for i, cs := range cases {
		vr := res[fmt.Sprintf("g%d", i)]
		failed := 0
		for _, v := range gen.AllVariants {
			if vr[v.Name].Gen.Failed() {
				failed++
			}
		}
		if failed == len(gen.AllVariants) {
			c.Class("rejected-by-yaccgo")
			c.Eval(1)
			continue
		}
		for _, v := range gen.AllVariants {
			c.Eval(1)
			r := vr[v.Name]
			if r.Gen.TimedOut {
				c.Inconclusive("generation timed out")
				continue
			}
			if r.Gen.EnvironmentFailure() {
				c.Infra("variant %s: the yaccgo CLI failed for a reason that is not its verdict on the grammar (exit %d): %s", v.Name, r.Gen.Exit, clip(r.Gen.Stderr, 300))
				return true
			}
			if r.Gen.Failed() {
				// accepted for one variant, refused for another: not a complete program for that variant
				msg := fmt.Sprintf("variant %s: generation failed (%s) although other variants of the same grammar were generated\n%s", v.Name, clip(firstPanicLine(r.Gen.Stderr), 200), cs.Text)
				c16Msg = msg
				c.Violate(cs, msg)
				return true
			}
			if !r.Built && !looksLikeLanguageError(v, r.BuildErr) {
				// the toolchain failed for a reason that is not a diagnostic about the file
				c.Infra("variant %s: toolchain failure that is not a compile/load diagnostic: %s", v.Name, clip(r.BuildErr, 400))
				return true
			}
			if !r.Built {
				msg := fmt.Sprintf("variant %s: yaccgo reported no error but the generated file does not %s:\n%s\ngrammar:\n%s", v.Name, map[bool]string{true: "build", false: "load"}[v.IsGo()], clip(r.BuildErr, 1500), cs.Text)
				c16Msg = msg
				c.Violate(cs, msg)
				return true
			}
			c.Class("ok:" + v.Name)
		}
		if strings.Contains(string(vr["go"].Source), "It is NeedPacked") {
			c.Class("packed-table")
		} else {
			c.Class("dense-table")
		}
		if c16Nontrivial(cs.Spec) {
			c.Nontrivial(Hash(cs.Text))
			if c.WantSample() {
				c.Sample(map[string]interface{}{"grammar": cs.Text, "variants_built": 5})
			}
		}
	}
	return false
}

func c16Nontrivial(s *spec.Spec) bool {
	lit, ident, untagged := false, false, false
	for _, t := range s.Terms {
		if t.IsLit() {
			ch := t.Lit[0]
			if !(ch >= 'a' && ch <= 'z' || ch >= 'A' && ch <= 'Z' || ch >= '0' && ch <= '9') {
				lit = true
			}
		} else {
			for _, r := range t.Name {
				if r == '_' || r > 127 {
					ident = true
				}
			}
		}
		if t.Tag == "" {
			untagged = true
		}
	}
	for _, n := range s.NTs {
		for _, r := range n.Name {
			if r == '_' || r > 127 {
				ident = true
			}
		}
		if n.Tag == "" {
			untagged = true
		}
	}
	return lit && ident && untagged
}

// looksLikeLanguageError tells a diagnostic about the generated file (compile
// error with file:line, JavaScript SyntaxError/ReferenceError/TypeError) from
// a failure of the toolchain itself (killed, out of memory, missing binary).
func looksLikeLanguageError(v gen.Variant, diag string) bool {
	if v.IsGo() {
		// a diagnostic about the generated file - but not one about the
		// toolchain's own files (build cache trimmed under a running build,
		// disk full): "could not import fmt (open .../gocache/...: no such file"
		for _, k := range []string{"no such file or directory", "no space left", "permission denied", "input/output error", "cannot allocate memory", "signal: killed", "gocache"} {
			if strings.Contains(diag, k) {
				return false
			}
		}
		return strings.Contains(diag, "main.go:")
	}
	for _, k := range []string{"SyntaxError", "ReferenceError", "TypeError", "ERR_INVALID_TYPESCRIPT_SYNTAX", "RangeError"} {
		if strings.Contains(diag, k) {
			return true
		}
	}
	return false
}
