package checks

import (
	"encoding/json"
	"fmt"
	"strings"

	"pgregory.net/rapid"

	"verifharness/ref"
	"verifharness/spec"
)

func init() {
	Describe("C03", &PropInfo{
		Rule: "grammars from the families uniform/productive/nullable/separators/lalr/prec (rapid) and the exhaustively enumerated tiny space; evaluated when yaccgo accepts the grammar; non-trivial when some reduction's LALR(1) lookahead set is a strict subset of FOLLOW(lhs) (an SLR-style computation would differ); distinct by grammar text",
		Assumptions: []string{
			"reference: canonical LR(1) item sets with FIRST-based closure, merged by core (the definition quoted in the property); capped at 20000 LR(1) states (larger cases are counted as lr1-too-big and skipped)",
			"the verif hook LALR1.VerifReduceLookaheads only reads lalr.trans and lalr.LookAheadSet",
			"warning expectation: a cell is certainly unresolved when it is a two-way S/R or R/R cell in which a candidate has no precedence, or a multi-way cell in which no candidate has precedence; R/R cells in which all rules carry precedence, multi-way cells with mixed precedence and cells touching a rule whose yacc precedence (last terminal) differs from yaccgo's (last terminal with precedence) make the grammar-level expectation indeterminate: counted, not asserted",
		},
		Explanation: "in-process: (1) for every state and every complete item, the lookahead set obtained through the hook equals the reference LALR(1) set (both inclusions), states matched by item set; (2) the number of 'warning: has the conflic' lines on stdout is > 0 iff the reference finds a conflict cell that precedence does not resolve; nullable-family grammars are built twice and must give the same sets",
	})
	fams := []string{"uniform", "productive", "nullable", "nullable", "separators", "samehandle", "lalr", "uniform-small", "prec", "prec-sep"}
	replay := func(c *Ctx, raw json.RawMessage) string {
		var gc GCase
		if m := decodeCase(raw, &gc); m != "" {
			return m
		}
		return evalC03(c, gc)
	}
	Register(&Unit{Prop: "C03", Name: "random",
		Shards: func(tier string) int { return map[string]int{"quick": 12, "thorough": 16}[tier] },
		Run: func(c *Ctx) {
			c.P.Rule = "random families"
			c.Rapid("la", c.Pick(8000, 80000), func(t *rapid.T) {
				gc := DrawGrammar(t, fams)
				if msg := evalC03(c, gc); msg != "" {
					c.Fail(gc, msg)
					t.Fatalf("%s", msg)
				}
			})
		},
		Replay: replay,
	})
	Register(&Unit{Prop: "C03", Name: "tiny",
		Shards: func(tier string) int { return map[string]int{"quick": 4, "thorough": 16}[tier] },
		Run: func(c *Ctx) {
			maxRules := c.Pick(3, 4)
			n := TinyCount(maxRules)
			c.P.Rule = fmt.Sprintf("all %d grammars over 2 terminals, 2 nonterminals, <= %d rules, rhs length <= 2", n, maxRules)
			for i := c.Shard; i < n; i += c.NShards {
				s := TinyGrammar(i, maxRules)
				gc := GCase{Family: "tiny", Spec: s, Text: s.Render(spec.RenderOpts{})}
				if msg := evalC03(c, gc); msg != "" {
					c.Violate(gc, msg)
					return
				}
			}
			if c.Shard == 0 {
				c.P.Exhaustive = append(c.P.Exhaustive, c.P.Rule)
			}
		},
		Replay: replay,
	})
}

const lr1Cap = 20000

// rulePrec describes the precedence yaccgo attached to a rule and whether
// yacc's definition (last terminal) would give the same.
type rulePrec struct {
	level     int // 0 = none
	assoc     int // 0 left 1 right 2 none
	ambiguous bool
}

func evalC03(c *Ctx, gc GCase) string {
	c.Eval(1)
	b, ok, err := BuildText(gc.Text, false)
	if !ok {
		c.Class("rejected-by-yaccgo")
		return ""
	}
	if err != nil {
		return adaptProblem(c, err, gc.Text)
	}
	c.Class("accepted")
	g := b.A.G
	lr0, _ := g.BuildLR0(0)
	ys := b.A.States()
	y2r, m := matchStates(g, lr0, ys)
	if m != "" {
		c.Exclude("lr0-mismatch (C09's verdict)")
		return ""
	}
	rla, _, ok := g.LALRLookaheads(lr0, lr1Cap)
	if !ok {
		c.Exclude("lr1-too-big")
		return ""
	}
	yla, err := b.A.Lookaheads()
	if err != nil {
		return fmt.Sprintf("lookahead table malformed: %v\n%s", err, gc.Text)
	}
	for i := range ys {
		want := rla[y2r[i]]
		for rule, la := range yla[i] {
			w, ok := want[rule]
			if !ok {
				return fmt.Sprintf("state %d: yaccgo lists a reduction by rule %d (%s) that is not a complete item of the state\n%s", i, rule, g.RuleString(rule), gc.Text)
			}
			if w != la {
				return fmt.Sprintf("state %d %s reduction by rule %d (%s): yaccgo lookahead %s, LALR(1) lookahead %s\n%s",
					i, itemsString(g, ys[i].Items), rule, g.RuleString(rule), g.SetNames(la), g.SetNames(w), gc.Text)
			}
		}
		for rule := range want {
			if _, ok := yla[i][rule]; !ok {
				return fmt.Sprintf("state %d: complete item of rule %d (%s) has no lookahead entry\n%s", i, rule, g.RuleString(rule), gc.Text)
			}
		}
	}
	if strings.HasPrefix(gc.Family, "nullable") && !c.inRepeat {
		// same grammar again, judged independently: the sets must not depend
		// on map iteration order
		c.inRepeat = true
		msg := evalC03(c, gc)
		c.inRepeat = false
		c.Eval(-1)
		if msg != "" {
			return "second build of the same text (the first build was correct): " + msg
		}
	}
	// --- warnings
	nWarn := strings.Count(b.Res.Stdout, "warning: has the conflic")
	rp := rulePrecs(b, gc.Spec)
	tps := termPrecs(b, gc.Spec)
	confl := g.Conflicts(lr0, rla)
	unresolved, indet := 0, 0
	for _, cf := range confl {
		switch cellStatus(tps, g, cf, rp) {
		case "unresolved":
			unresolved++
		case "indeterminate":
			indet++
		}
	}
	switch {
	case unresolved > 0:
		c.Class("warn-expected")
		if nWarn == 0 {
			cf := confl[0]
			return fmt.Sprintf("grammar has %d LALR(1) conflict cell(s) that precedence does not resolve (e.g. canonical state %s on %s: shift=%v reduces=%v) but yaccgo printed no conflict warning\n%s",
				unresolved, itemsString(g, lr0[cf.State].Items), termName(g, cf.Term), cf.Shift, cf.Reduces, gc.Text)
		}
	case indet > 0:
		c.Exclude("warning expectation indeterminate (R/R with precedence, mixed multi-way or ambiguous rule precedence)")
	default:
		if len(confl) > 0 {
			c.Class("conflicts-all-resolved-by-precedence")
		} else {
			c.Class("no-conflict")
		}
		if nWarn > 0 {
			return fmt.Sprintf("yaccgo printed %d conflict warning(s) but the grammar has no LALR(1) conflict left unresolved by precedence (%d conflict cells, all resolved)\nstdout: %s\n%s",
				nWarn, len(confl), firstLines(b.Res.Stdout, 6), gc.Text)
		}
	}
	// --- classification and non-triviality
	fo := g.Follow()
	strict := false
	for q := range lr0 {
		for rule, la := range rla[q] {
			if rule == 0 {
				continue
			}
			if f := fo[g.Rules[rule].LHS]; la != f && la&f == la {
				strict = true
			}
		}
	}
	if len(confl) == 0 {
		c.Class("class:" + g.Class(lr0, rla))
	} else {
		c.Class("class:conflicted")
	}
	if strict {
		c.Nontrivial(Hash(gc.Text))
		if c.WantSample() {
			c.Sample(map[string]interface{}{"family": gc.Family, "grammar": gc.Text, "lr0_states": len(lr0), "conflict_cells": len(confl), "warnings": nWarn})
		}
	}
	c.Class("family:" + familyRoot(gc.Family))
	return ""
}

func termName(g *ref.CFG, t int) string {
	if t == g.NT {
		return "$"
	}
	return g.Names[t]
}

// rulePrecs gives, per rule, the precedence it has by the declarations and
// whether yacc's definition (last terminal) and yaccgo's (last terminal with a
// precedence) disagree. With an abstract spec at hand the declarations are
// read from it (so that a front end that attaches a wrong precedence cannot
// make a genuine conflict look resolved); otherwise from yaccgo's grammar.
func rulePrecs(b *Built, sp *spec.Spec) []rulePrec {
	G := b.A.L.G
	out := make([]rulePrec, len(G.ProductoinRules))
	if sp != nil && len(sp.Rules)+1 == len(G.ProductoinRules) {
		for i := 1; i < len(out); i++ {
			sr := sp.Rules[i-1]
			if sr.Prec >= 0 {
				lv, as := sp.PrecOf(sr.Prec)
				out[i] = rulePrec{level: lv, assoc: assocCode(as)}
				continue
			}
			lastT, lastP := -1, -1
			for j, x := range sr.RHS {
				if x < len(sp.Terms) {
					lastT = j
					if lv, _ := sp.PrecOf(x); lv > 0 {
						lastP = j
					}
				}
			}
			if lastP >= 0 {
				lv, as := sp.PrecOf(sr.RHS[lastP])
				out[i] = rulePrec{level: lv, assoc: assocCode(as), ambiguous: lastP != lastT}
			}
		}
		return out
	}
	for i, r := range G.ProductoinRules {
		if i == 0 {
			continue
		}
		if r.PrecSymbol != nil && r.PrecSymbol.Prec > 0 {
			out[i].level = r.PrecSymbol.Prec
			out[i].assoc = int(r.PrecSymbol.PrecType)
		}
		lastT := -1
		for j, s := range r.RighPart {
			if !s.IsNonTerminator {
				lastT = j
			}
		}
		yaccLevel := 0
		if lastT >= 0 && r.RighPart[lastT].Prec > 0 {
			yaccLevel = r.RighPart[lastT].Prec
		}
		if yaccLevel != out[i].level {
			out[i].ambiguous = true
		}
		if r.PrecSymbol != nil && lastT >= 0 && r.RighPart[lastT] != r.PrecSymbol {
			out[i].ambiguous = true
		}
	}
	return out
}

func assocCode(a string) int {
	switch a {
	case "left":
		return 0
	case "right":
		return 1
	}
	return 2
}

// termPrecs: precedence level per terminal (our adapted index; last = end
// marker), from the spec by name when available, else from yaccgo's symbols.
func termPrecs(b *Built, sp *spec.Spec) []int {
	g := b.A.G
	out := make([]int, g.NT+1)
	byName := map[string]int{}
	if sp != nil {
		for i, t := range sp.Terms {
			byName[t.YName()] = i
		}
	}
	for t := 0; t < g.NT; t++ {
		if si, ok := byName[g.Names[t]]; ok {
			out[t], _ = sp.PrecOf(si)
			continue
		}
		if s := b.A.L.G.Symbols[b.A.FromOur[t]]; s.Prec > 0 {
			out[t] = s.Prec
		}
	}
	return out
}

// cellStatus: resolved / unresolved / indeterminate (see PropInfo).
func cellStatus(tps []int, g *ref.CFG, cf ref.Conflict, rp []rulePrec) string {
	tl := tps[cf.Term]
	nPrec, nNo := 0, 0
	if cf.Shift {
		if tl > 0 {
			nPrec++
		} else {
			nNo++
		}
	}
	amb := false
	for _, r := range cf.Reduces {
		if rp[r].ambiguous {
			amb = true
		}
		if rp[r].level > 0 {
			nPrec++
		} else {
			nNo++
		}
	}
	n := len(cf.Reduces)
	if cf.Shift {
		n++
	}
	if amb {
		return "indeterminate"
	}
	if n == 2 {
		if nNo > 0 {
			return "unresolved"
		}
		if cf.Shift {
			return "resolved"
		}
		return "indeterminate" // R/R, both with precedence
	}
	if nPrec == 0 {
		return "unresolved"
	}
	return "indeterminate"
}
