package checks

import (
	"encoding/json"
	"fmt"
	"os"
	"strings"

	utils "github.com/acekingke/yaccgo/Utils"
	"pgregory.net/rapid"

	"verifharness/gen"
	"verifharness/spec"
	"verifharness/yg"
)

func init() {
	Describe("C05", &PropInfo{
		Rule: "matrix unit: rapid-drawn integer matrices (1-8 x 1-12, density 5-70 %, values in [-50,300], leading all-empty columns likely) given to PackTable; non-trivial = the packed array had at least one leading empty slot or two rows interleave. cells unit: grammars of all families; for every (state, symbol) the model of the generated lookup over the exported packed arrays must equal the dense table; non-trivial = the grammar is packed and has >= 1 row whose default action is a reduction and >= 1 offset that is negative or shared. gen unit: the real generated Action() of the packed build is dumped for all (state, symbol) and compared with the -u build, and both builds are run on the same inputs",
		Assumptions: []string{
			"the lookup model in yg.PackedLookup mirrors Builder/goCode.templ:(*StateSym).Action (offset+symbol, bounds, check vector, ActDef/GotoDef fallback); the gen unit executes the real template code so a divergence between model and template is itself caught",
			"matrices: 0 is the 'empty' value of PackTable, as in its callers",
		},
		Explanation: "round trip / differential: unpack(pack(M)) == M cell by cell with an independent lookup; packed lookup == dense table on every cell of every accepted grammar; packed generated parser == unpacked generated parser on every cell and on every input",
	})
	Register(&Unit{Prop: "C05", Name: "matrix",
		Shards: func(tier string) int { return map[string]int{"quick": 4, "thorough": 16}[tier] },
		Run: func(c *Ctx) {
			c.P.Rule = "random matrices through PackTable"
			c.Rapid("pack", c.Pick(20000, 400000), func(t *rapid.T) {
				rows := rapid.IntRange(1, 8).Draw(t, "rows")
				cols := rapid.IntRange(1, 12).Draw(t, "cols")
				dens := rapid.IntRange(1, 14).Draw(t, "density")
				lead := rapid.IntRange(0, cols-1).Draw(t, "leading-empty-cols")
				if rapid.Bool().Draw(t, "nolead") {
					lead = 0
				}
				tab := make([][]int, rows)
				for i := range tab {
					tab[i] = make([]int, cols)
					for j := lead; j < cols; j++ {
						if rapid.IntRange(0, 19).Draw(t, "nz") < dens {
							v := rapid.IntRange(-50, 300).Draw(t, "v")
							tab[i][j] = v
						}
					}
				}
				cs := C05Matrix{Table: tab}
				if msg := evalC05Matrix(c, cs); msg != "" {
					c.Fail(cs, msg)
					t.Fatalf("%s", msg)
				}
			})
		},
		Replay: func(c *Ctx, raw json.RawMessage) string {
			var cs C05Matrix
			if m := decodeCase(raw, &cs); m != "" {
				return m
			}
			return evalC05Matrix(c, cs)
		},
	})
	fams := []string{"uniform", "productive", "nullable", "separators", "lalr", "prec", "productive-small", "decl"}
	replay := func(c *Ctx, raw json.RawMessage) string {
		var gc GCase
		if m := decodeCase(raw, &gc); m != "" {
			return m
		}
		return evalC05Cells(c, gc)
	}
	Register(&Unit{Prop: "C05", Name: "cells",
		Shards: func(tier string) int { return map[string]int{"quick": 8, "thorough": 16}[tier] },
		Run: func(c *Ctx) {
			c.P.Rule = "random families, every cell"
			c.Rapid("cells", c.Pick(8000, 100000), func(t *rapid.T) {
				gc := DrawGrammar(t, fams)
				if msg := evalC05Cells(c, gc); msg != "" {
					c.Fail(gc, msg)
					t.Fatalf("%s", msg)
				}
			})
		},
		Replay: replay,
	})
	Register(&Unit{Prop: "C05", Name: "cells-tiny",
		Shards: func(tier string) int { return map[string]int{"quick": 4, "thorough": 16}[tier] },
		Run: func(c *Ctx) {
			maxRules := c.Pick(3, 4)
			n := TinyCount(maxRules)
			c.P.Rule = fmt.Sprintf("all %d grammars over 2 terminals, 2 nonterminals, <= %d rules, rhs length <= 2", n, maxRules)
			for i := c.Shard; i < n; i += c.NShards {
				s := TinyGrammar(i, maxRules)
				gc := GCase{Family: "tiny", Spec: s, Text: s.Render(spec.RenderOpts{})}
				if msg := evalC05Cells(c, gc); msg != "" {
					c.Violate(gc, msg)
					return
				}
			}
			if c.Shard == 0 {
				c.P.Exhaustive = append(c.P.Exhaustive, c.P.Rule)
			}
		},
		Replay: replay,
	})
}

type C05Matrix struct {
	Table [][]int `json:"table"`
}

func evalC05Matrix(c *Ctx, cs C05Matrix) (msg string) {
	c.Eval(1)
	tab := cs.Table
	rows, cols := len(tab), len(tab[0])
	cp := make([][]int, rows)
	for i := range tab {
		cp[i] = append([]int{}, tab[i]...)
	}
	defer func() {
		if e := recover(); e != nil {
			msg = fmt.Sprintf("PackTable/lookup panicked: %v on %v", e, tab)
		}
	}()
	T, D, C := utils.PackTable(cp)
	for i := range tab {
		for j := range tab[i] {
			if cp[i][j] != tab[i][j] {
				return fmt.Sprintf("PackTable modified its argument at (%d,%d)", i, j)
			}
		}
	}
	if len(D) != rows {
		return fmt.Sprintf("offset vector has %d entries for %d rows: table=%v", len(D), rows, tab)
	}
	look := func(i, j int) int {
		k := D[i] + j
		if k < 0 || k >= len(C) || C[k] != i {
			return 0
		}
		return T[k]
	}
	for i := 0; i < rows; i++ {
		for j := 0; j < cols; j++ {
			if got := look(i, j); got != tab[i][j] {
				return fmt.Sprintf("cell (%d,%d) = %d, lookup through the packed arrays gives %d\ntable=%v\nT=%v\nD=%v\nC=%v", i, j, tab[i][j], got, tab, T, D, C)
			}
		}
	}
	back := utils.UnPackTable(rows, cols, T, D, C)
	for i := 0; i < rows; i++ {
		for j := 0; j < cols; j++ {
			if back[i][j] != tab[i][j] {
				return fmt.Sprintf("UnPackTable(PackTable(M)) differs at (%d,%d): %d vs %d\ntable=%v", i, j, back[i][j], tab[i][j], tab)
			}
		}
	}
	// non-trivial: some offset negative (leading slots trimmed) or rows interleave
	neg, inter := false, false
	for i := range D {
		if D[i] < 0 {
			neg = true
		}
	}
	for k := 1; k+1 < len(C); k++ {
		if C[k-1] >= 0 && C[k] >= 0 && C[k+1] >= 0 && C[k-1] == C[k+1] && C[k] != C[k-1] {
			inter = true
		}
	}
	if neg {
		c.Class("negative-offset")
	}
	if inter {
		c.Class("interleaved-rows")
	}
	if neg || inter {
		c.Nontrivial(Hash(fmt.Sprint(tab)))
		if c.WantSample() {
			c.Sample(map[string]interface{}{"table": tab, "T": T, "D": D, "C": C})
		}
	}
	return ""
}

func evalC05Cells(c *Ctx, gc GCase) string {
	c.Eval(1)
	b, ok, err := BuildText(gc.Text, false)
	if !ok {
		c.Class("rejected-by-yaccgo")
		return ""
	}
	if err != nil {
		return adaptProblem(c, err, gc.Text)
	}
	l := b.A.L
	if !l.NeedPacked {
		c.Class("not-packed (dense table is emitted)")
		return ""
	}
	c.Class("packed")
	for q, row := range l.GTable {
		for sym, v := range row {
			got, err := yg.PackedLookup(l, q, sym)
			if err != nil {
				return fmt.Sprintf("%v\n%s", err, gc.Text)
			}
			if got != v {
				return fmt.Sprintf("state %d, symbol %s (id %d): dense table has %d, lookup through the packed arrays gives %d\naction=%v\noffset=%v\ncheck=%v\nactdef=%v\ngotodef=%v\n%s",
					q, l.G.Symbols[sym].Name, sym, v, got, l.ActionTable, l.OffsetTable, l.CheckTable, l.ActionDef, l.GoToDef, gc.Text)
			}
		}
	}
	redDef, negOff := false, false
	for _, d := range l.ActionDef {
		if d < 0 {
			redDef = true
		}
	}
	for _, o := range l.OffsetTable {
		if o < 0 {
			negOff = true
		}
	}
	if redDef {
		c.Class("has-default-reduction")
	}
	if negOff {
		c.Class("has-negative-offset")
	}
	if redDef && len(l.GTable) >= 4 {
		c.Nontrivial(Hash(gc.Text))
		if c.WantSample() {
			c.Sample(map[string]interface{}{"family": gc.Family, "grammar": gc.Text, "states": len(l.GTable), "packed_len": len(l.ActionTable)})
		}
	}
	return ""
}

func init() {
	Register(&Unit{Prop: "C05", Name: "gen",
		Shards: func(tier string) int { return map[string]int{"quick": 4, "thorough": 8}[tier] },
		Run: func(c *Ctx) {
			c.P.Rule = "generated packed vs -u parsers: every cell through the real Action(), and every input"
			n := c.Pick(36, 500)
			g := rapid.Custom(func(t *rapid.T) *TGCase {
				cs := drawTG(t, []string{"productive", "lalr", "separators", "nullable", "prec", "uniform"}, 100, 10)
				cs.Variants = []string{"go", "go-u", "go-o", "go-ou"}
				return cs
			})
			batch := 24
			for done := 0; done < n; done += batch {
				var cases []*TGCase
				for i := 0; i < batch && done+i < n; i++ {
					cases = append(cases, g.Example(int(c.SubSeed("case", done+i)>>1)))
				}
				if runC05Gen(c, cases) {
					return
				}
			}
		},
		Replay: func(c *Ctx, raw json.RawMessage) string {
			var cs TGCase
			if m := decodeCase(raw, &cs); m != "" {
				return m
			}
			c05Msg = ""
			runC05Gen(c, []*TGCase{&cs})
			return c05Msg
		},
	})
}

var c05Msg string

func runC05Gen(c *Ctx, cases []*TGCase) bool {
	dir, err := os.MkdirTemp(c.OutDir, "c05-")
	if err != nil {
		c.Infra("mkdtemp: %v", err)
		return true
	}
	defer os.RemoveAll(dir)
	var jobs []*gen.Job
	for i, cs := range cases {
		j := &gen.Job{ID: fmt.Sprintf("g%d", i), Spec: cs.Spec, Variants: variantsByName(cs.Variants)}
		j.Ops = append(j.Ops, gen.Op{Op: "cells"})
		for _, in := range cs.Inputs {
			j.Ops = append(j.Ops, gen.Op{Op: "parse", Init: true, In: in})
		}
		jobs = append(jobs, j)
	}
	env := c.GenEnv()
	if c.P.Infra != "" {
		return true
	}
	res, err := gen.RunBatch(env, dir, jobs)
	if err != nil {
		c.Infra("batch: %v", err)
		return true
	}
	for i, cs := range cases {
		vr := res[fmt.Sprintf("g%d", i)]
		fail := func(in []int, format string, a ...interface{}) bool {
			msg := fmt.Sprintf(format, a...) + "\ngrammar:\n" + cs.Text
			small := *cs
			if in != nil {
				small.Inputs = [][]int{in}
			}
			c05Msg = msg
			c.Violate(&small, msg)
			return true
		}
		for _, pair := range [][2]string{{"go", "go-u"}, {"go-o", "go-ou"}} {
			p, u := vr[pair[0]], vr[pair[1]]
			if p == nil || u == nil || p.Gen.Failed() || u.Gen.Failed() {
				c.Class("rejected-by-yaccgo")
				break
			}
			if !p.Built || !u.Built {
				c.Exclude("generated file does not build (C16's business)")
				break
			}
			if p.TimedOut || u.TimedOut || len(p.Lines) < 1+len(cs.Inputs) || len(u.Lines) < 1+len(cs.Inputs) {
				c.Inconclusive("driver run incomplete (timeout or crash; C06's business)")
				break
			}
			packed := strings.Contains(string(p.Source), "It is NeedPacked")
			var pc, uc struct {
				Cells [][]int `json:"cells"`
			}
			if json.Unmarshal(p.Lines[0], &pc) != nil || json.Unmarshal(u.Lines[0], &uc) != nil {
				c.Infra("unreadable cells dump")
				return true
			}
			if len(pc.Cells) != len(uc.Cells) {
				return fail(nil, "%s has %d states, %s has %d", pair[0], len(pc.Cells), pair[1], len(uc.Cells))
			}
			for q := range uc.Cells {
				if len(pc.Cells[q]) != len(uc.Cells[q]) {
					return fail(nil, "state %d: %s answers %d symbols, %s %d (a lookup failed)", q, pair[0], len(pc.Cells[q]), pair[1], len(uc.Cells[q]))
				}
				for a := range uc.Cells[q] {
					c.Eval(1)
					if pc.Cells[q][a] != uc.Cells[q][a] {
						return fail(nil, "Action(state %d, symbol %d) = %d in the %s parser (packed=%v) and %d in the %s parser", q, a, pc.Cells[q][a], pair[0], packed, uc.Cells[q][a], pair[1])
					}
				}
			}
			for k, in := range cs.Inputs {
				a, e1 := p.ParseRes(k + 1)
				b, e2 := u.ParseRes(k + 1)
				if e1 != nil || e2 != nil {
					c.Infra("unreadable parse result: %v %v", e1, e2)
					return true
				}
				c.Eval(1)
				if d := diffRes(a, b); d != "" {
					return fail(in, "%s and %s disagree on %s: %s", pair[0], pair[1], inputNames(cs.Spec, in), d)
				}
			}
			if packed {
				c.Class("packed:" + pair[0])
				c.Nontrivial(Hash(cs.Text, pair[0]))
				if c.WantSample() {
					c.Sample(map[string]interface{}{"grammar": cs.Text, "pair": pair, "states": len(uc.Cells), "inputs": len(cs.Inputs)})
				}
			} else {
				c.Class("dense-in-both:" + pair[0])
			}
		}
	}
	return false
}
