package checks

import (
	"encoding/json"
	"fmt"

	utils "github.com/acekingke/yaccgo/Utils"
	"pgregory.net/rapid"

	"verifharness/spec"
	"verifharness/yg"
)

func init() {
	Describe("C05", &PropInfo{
		Rule: "matrix unit: rapid-drawn integer matrices (1-8 x 1-12, density 5-70 %, values in [-50,300], leading all-empty columns likely) given to PackTable; non-trivial = the packed array had at least one leading empty slot or two rows interleave. cells unit: grammars of all families; for every (state, symbol) the model of the generated lookup over the exported packed arrays must equal the dense table; non-trivial = the grammar is packed and has >= 1 row whose default action is a reduction and >= 1 offset that is negative or shared. gen unit: the real generated Action() of the packed build is dumped for all (state, symbol) and compared with the -u build, and both builds are run on the same inputs",
		Assumptions: []string{
			"the lookup model in yg.PackedLookup mirrors Builder/goCode.templ:(*StateSym).Action (offset+symbol, bounds, check vector, ActDef/GotoDef fallback); the gen unit executes the real template code so a divergence between model and template is itself caught",
			"matrices: 0 is the 'empty' value of PackTable, as in its callers",
		},
		Explanation: "round trip / differential: unpack(pack(M)) == M cell by cell with an independent lookup; packed lookup == dense table on every cell of every accepted grammar; packed generated parser == unpacked generated parser on every cell and on every input",
	})
	Register(&Unit{Prop: "C05", Name: "matrix",
		Shards: func(tier string) int { return map[string]int{"quick": 4, "thorough": 16}[tier] },
		Run: func(c *Ctx) {
			c.P.Rule = "random matrices through PackTable"
			c.Rapid("pack", c.Pick(20000, 400000), func(t *rapid.T) {
				rows := rapid.IntRange(1, 8).Draw(t, "rows")
				cols := rapid.IntRange(1, 12).Draw(t, "cols")
				dens := rapid.IntRange(1, 14).Draw(t, "density")
				lead := rapid.IntRange(0, cols-1).Draw(t, "leading-empty-cols")
				if rapid.Bool().Draw(t, "nolead") {
					lead = 0
				}
				tab := make([][]int, rows)
				for i := range tab {
					tab[i] = make([]int, cols)
					for j := lead; j < cols; j++ {
						if rapid.IntRange(0, 19).Draw(t, "nz") < dens {
							v := rapid.IntRange(-50, 300).Draw(t, "v")
							tab[i][j] = v
						}
					}
				}
				cs := C05Matrix{Table: tab}
				if msg := evalC05Matrix(c, cs); msg != "" {
					c.Fail(cs, msg)
					t.Fatalf("%s", msg)
				}
			})
		},
		Replay: func(c *Ctx, raw json.RawMessage) string {
			var cs C05Matrix
			if m := decodeCase(raw, &cs); m != "" {
				return m
			}
			return evalC05Matrix(c, cs)
		},
	})
	fams := []string{"uniform", "productive", "nullable", "separators", "lalr", "prec", "productive-small", "decl"}
	replay := func(c *Ctx, raw json.RawMessage) string {
		var gc GCase
		if m := decodeCase(raw, &gc); m != "" {
			return m
		}
		return evalC05Cells(c, gc)
	}
	Register(&Unit{Prop: "C05", Name: "cells",
		Shards: func(tier string) int { return map[string]int{"quick": 8, "thorough": 16}[tier] },
		Run: func(c *Ctx) {
			c.P.Rule = "random families, every cell"
			c.Rapid("cells", c.Pick(4000, 80000), func(t *rapid.T) {
				gc := DrawGrammar(t, fams)
				if msg := evalC05Cells(c, gc); msg != "" {
					c.Fail(gc, msg)
					t.Fatalf("%s", msg)
				}
			})
		},
		Replay: replay,
	})
	Register(&Unit{Prop: "C05", Name: "cells-tiny",
		Shards: func(tier string) int { return map[string]int{"quick": 4, "thorough": 16}[tier] },
		Run: func(c *Ctx) {
			maxRules := c.Pick(3, 4)
			n := TinyCount(maxRules)
			c.P.Rule = fmt.Sprintf("all %d grammars over 2 terminals, 2 nonterminals, <= %d rules, rhs length <= 2", n, maxRules)
			for i := c.Shard; i < n; i += c.NShards {
				s := TinyGrammar(i, maxRules)
				gc := GCase{Family: "tiny", Spec: s, Text: s.Render(spec.RenderOpts{})}
				if msg := evalC05Cells(c, gc); msg != "" {
					c.Violate(gc, msg)
					return
				}
			}
			if c.Shard == 0 {
				c.P.Exhaustive = append(c.P.Exhaustive, c.P.Rule)
			}
		},
		Replay: replay,
	})
}

type C05Matrix struct {
	Table [][]int `json:"table"`
}

func evalC05Matrix(c *Ctx, cs C05Matrix) (msg string) {
	c.Eval(1)
	tab := cs.Table
	rows, cols := len(tab), len(tab[0])
	cp := make([][]int, rows)
	for i := range tab {
		cp[i] = append([]int{}, tab[i]...)
	}
	defer func() {
		if e := recover(); e != nil {
			msg = fmt.Sprintf("PackTable/lookup panicked: %v on %v", e, tab)
		}
	}()
	T, D, C := utils.PackTable(cp)
	for i := range tab {
		for j := range tab[i] {
			if cp[i][j] != tab[i][j] {
				return fmt.Sprintf("PackTable modified its argument at (%d,%d)", i, j)
			}
		}
	}
	if len(D) != rows {
		return fmt.Sprintf("offset vector has %d entries for %d rows: table=%v", len(D), rows, tab)
	}
	if len(T) != len(C) {
		return fmt.Sprintf("value vector (%d) and check vector (%d) differ in length: table=%v", len(T), len(C), tab)
	}
	look := func(i, j int) int {
		k := D[i] + j
		if k < 0 || k >= len(C) || C[k] != i {
			return 0
		}
		return T[k]
	}
	for i := 0; i < rows; i++ {
		for j := 0; j < cols; j++ {
			if got := look(i, j); got != tab[i][j] {
				return fmt.Sprintf("cell (%d,%d) = %d, lookup through the packed arrays gives %d\ntable=%v\nT=%v\nD=%v\nC=%v", i, j, tab[i][j], got, tab, T, D, C)
			}
		}
	}
	back := utils.UnPackTable(rows, cols, T, D, C)
	for i := 0; i < rows; i++ {
		for j := 0; j < cols; j++ {
			if back[i][j] != tab[i][j] {
				return fmt.Sprintf("UnPackTable(PackTable(M)) differs at (%d,%d): %d vs %d\ntable=%v", i, j, back[i][j], tab[i][j], tab)
			}
		}
	}
	// non-trivial: some offset negative (leading slots trimmed) or rows interleave
	neg, inter := false, false
	for i := range D {
		if D[i] < 0 {
			neg = true
		}
	}
	for k := 1; k+1 < len(C); k++ {
		if C[k-1] >= 0 && C[k] >= 0 && C[k+1] >= 0 && C[k-1] == C[k+1] && C[k] != C[k-1] {
			inter = true
		}
	}
	if neg {
		c.Class("negative-offset")
	}
	if inter {
		c.Class("interleaved-rows")
	}
	if neg || inter {
		c.Nontrivial(Hash(fmt.Sprint(tab)))
		if c.WantSample() {
			c.Sample(map[string]interface{}{"table": tab, "T": T, "D": D, "C": C})
		}
	}
	return ""
}

func evalC05Cells(c *Ctx, gc GCase) string {
	c.Eval(1)
	b, ok, err := BuildText(gc.Text, false)
	if !ok {
		c.Class("rejected-by-yaccgo")
		return ""
	}
	if err != nil {
		return fmt.Sprintf("yaccgo's grammar tables are malformed: %v\n%s", err, gc.Text)
	}
	l := b.A.L
	if !l.NeedPacked {
		c.Class("not-packed (dense table is emitted)")
		return ""
	}
	c.Class("packed")
	for q, row := range l.GTable {
		for sym, v := range row {
			got, err := yg.PackedLookup(l, q, sym)
			if err != nil {
				return fmt.Sprintf("%v\n%s", err, gc.Text)
			}
			if got != v {
				return fmt.Sprintf("state %d, symbol %s (id %d): dense table has %d, lookup through the packed arrays gives %d\naction=%v\noffset=%v\ncheck=%v\nactdef=%v\ngotodef=%v\n%s",
					q, l.G.Symbols[sym].Name, sym, v, got, l.ActionTable, l.OffsetTable, l.CheckTable, l.ActionDef, l.GoToDef, gc.Text)
			}
		}
	}
	redDef, negOff := false, false
	for _, d := range l.ActionDef {
		if d < 0 {
			redDef = true
		}
	}
	for _, o := range l.OffsetTable {
		if o < 0 {
			negOff = true
		}
	}
	if redDef {
		c.Class("has-default-reduction")
	}
	if negOff {
		c.Class("has-negative-offset")
	}
	if redDef && len(l.GTable) >= 4 {
		c.Nontrivial(Hash(gc.Text))
		if c.WantSample() {
			c.Sample(map[string]interface{}{"family": gc.Family, "grammar": gc.Text, "states": len(l.GTable), "packed_len": len(l.ActionTable)})
		}
	}
	return ""
}
