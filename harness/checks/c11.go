package checks

import (
	"encoding/json"
	"fmt"
	"os"
	"regexp"
	"strconv"
	"strings"

	"pgregory.net/rapid"

	"verifharness/gen"
	"verifharness/spec"
	"verifharness/yg"
)

func init() {
	Describe("C11", &PropInfo{
		Rule: "declaration mixes drawn with rapid: named tokens with and without explicit numbers (1..31, 127..70000, distinct from each other and from the printable-ASCII codes of literals), character literals declared by %token / only on a precedence line / only by use in a rule, tagged and untagged, tokens re-declared to add their number, identifier and literal pools. symbols unit (in-process): Symbol.Value of every terminal. files unit: `const NAME = n` lines of the generated Go and TypeScript files and, behaviourally, translate() called by the driver on every declared code, -1 and 60 other integers. Non-trivial = mix with >= 1 explicit number above 127, >= 1 literal and >= 2 automatically numbered tokens; distinct by grammar text",
		Assumptions: []string{
			"explicit numbers are positive, pairwise distinct and differ from the codes of the literals used (the property itself says 'provided the user's explicit numbers are distinct')",
			"'maps any other integer to an error': translate() must give all undeclared integers one and the same symbol, different from every token's symbol and from the end marker's, and a parse fed such a code must end in a syntax error (the latter is exercised by C06's undeclared-code inputs)",
		},
		Explanation: "validity predicate over the code assignment (literal = character code, explicit = that number, the rest pairwise distinct, distinct from all of these and from -1) + consistency of constants and translate() with it, in both target languages",
	})
	Register(&Unit{Prop: "C11", Name: "symbols",
		Shards: func(tier string) int { return map[string]int{"quick": 8, "thorough": 16}[tier] },
		Run: func(c *Ctx) {
			c.Rapid("codes", c.Pick(10000, 100000), func(t *rapid.T) {
				gc := drawC11(t)
				if msg := evalC11Symbols(c, gc); msg != "" {
					c.Fail(gc, msg)
					t.Fatalf("%s", msg)
				}
			})
		},
		Replay: func(c *Ctx, raw json.RawMessage) string {
			var gc GCase
			if m := decodeCase(raw, &gc); m != "" {
				return m
			}
			return evalC11Symbols(c, gc)
		},
	})
	Register(&Unit{Prop: "C11", Name: "files",
		Shards: func(tier string) int { return map[string]int{"quick": 4, "thorough": 8}[tier] },
		Run: func(c *Ctx) {
			n := c.Pick(36, 600)
			g := rapid.Custom(func(t *rapid.T) *GCase { gc := drawC11(t); return &gc })
			batch := 24
			for done := 0; done < n; done += batch {
				var cases []*GCase
				for i := 0; i < batch && done+i < n; i++ {
					cases = append(cases, g.Example(int(c.SubSeed("case", done+i)>>1)))
				}
				if runC11Files(c, cases) {
					return
				}
			}
		},
		Replay: func(c *Ctx, raw json.RawMessage) string {
			var gc GCase
			if m := decodeCase(raw, &gc); m != "" {
				return m
			}
			c11Msg = ""
			runC11Files(c, []*GCase{&gc})
			return c11Msg
		},
	})
}

var c11Msg string

func drawC11(t *rapid.T) GCase {
	s := spec.Productive(t, spec.Cfg{MaxT: 6, MaxN: 3, MaxR: 8, MaxLen: 4, Lits: true})
	if rapid.IntRange(0, 2).Draw(t, "prec") > 0 {
		spec.WithPrec(t, s)
	}
	spec.WithDecls(t, s)
	if rapid.Bool().Draw(t, "names") {
		spec.WithNames(t, s)
	}
	// declarations merged or split across %token lines at random
	return GCase{Family: "decl-mix", Spec: s, Text: s.Render(spec.RenderOpts{Layout: spec.DrawLayout(t)})}
}

// checkCodes validates a code assignment: codes[i] is the code of terminal i.
func checkCodes(s *spec.Spec, codes []int, where string) string {
	seen := map[int]int{}
	for i, t := range s.Terms {
		v := codes[i]
		switch {
		case t.IsLit():
			if v != int(t.Lit[0]) {
				return fmt.Sprintf("%s: literal %s has code %d, its character code is %d", where, t.Text(), v, int(t.Lit[0]))
			}
		case t.Code != 0:
			if v != t.Code {
				return fmt.Sprintf("%s: token %s was declared with number %d but has code %d", where, t.Name, t.Code, v)
			}
		}
		if v == -1 {
			return fmt.Sprintf("%s: token %s has the code of the end marker (-1)", where, t.Text())
		}
		if j, dup := seen[v]; dup {
			return fmt.Sprintf("%s: tokens %s and %s share the code %d", where, s.Terms[j].Text(), t.Text(), v)
		}
		seen[v] = i
	}
	return ""
}

func c11Nontrivial(s *spec.Spec) bool {
	hi, lit, auto := false, false, 0
	for _, t := range s.Terms {
		if t.IsLit() {
			lit = true
		} else if t.Code > 127 {
			hi = true
		} else if t.Code == 0 {
			auto++
		}
	}
	return hi && lit && auto >= 2
}

func evalC11Symbols(c *Ctx, gc GCase) string {
	c.Eval(1)
	s := gc.Spec
	res := yg.Build(gc.Text, false)
	if !res.Accepted() {
		c.Class("rejected-by-yaccgo")
		return ""
	}
	G := res.Root.LALR1.G
	codes := make([]int, len(s.Terms))
	for i, t := range s.Terms {
		sy := G.SymbolsMap[t.YName()]
		if sy == nil || sy.IsNonTerminator {
			return fmt.Sprintf("terminal %s is missing from the grammar\n%s", t.Text(), gc.Text)
		}
		codes[i] = sy.Value
	}
	if msg := checkCodes(s, codes, "symbol table"); msg != "" {
		return msg + "\n" + gc.Text
	}
	c.Class("codes-valid")
	if c11Nontrivial(s) {
		c.Nontrivial(Hash(gc.Text))
		if c.WantSample() {
			c.Sample(map[string]interface{}{"grammar": gc.Text, "codes": codes})
		}
	}
	return ""
}

var reConst = regexp.MustCompile(`(?m)^const (\S+) = (-?\d+)\s*$`)

func runC11Files(c *Ctx, cases []*GCase) bool {
	dir, err := os.MkdirTemp(c.OutDir, "c11-")
	if err != nil {
		c.Infra("mkdtemp: %v", err)
		return true
	}
	defer os.RemoveAll(dir)
	probes := []int{-1, 0, 1, 2, -2, -100, 1 << 20}
	for i := 3; len(probes) < 60; i += 97 {
		probes = append(probes, i)
	}
	var jobs []*gen.Job
	for i, gc := range cases {
		jobs = append(jobs, &gen.Job{ID: fmt.Sprintf("g%d", i), Spec: gc.Spec, Variants: []gen.Variant{gen.VGo, gen.VGoO, gen.VTs},
			Ops: []gen.Op{{Op: "translate", In: probes}}})
	}
	env := c.GenEnv()
	if c.P.Infra != "" {
		return true
	}
	res, err := gen.RunBatch(env, dir, jobs)
	if err != nil {
		c.Infra("batch: %v", err)
		return true
	}
	type tr struct {
		Translate []*int   `json:"translate"` // null: translate() returned no number (TypeScript undefined)
		Names     []string `json:"names"`
		Codes     []int    `json:"codes"`
		Own       []*int   `json:"own"`
	}
	for i, gc := range cases {
		s := gc.Spec
		vr := res[fmt.Sprintf("g%d", i)]
		fail := func(format string, a ...interface{}) bool {
			msg := fmt.Sprintf(format, a...) + "\n" + gc.Text
			c11Msg = msg
			c.Violate(gc, msg)
			return true
		}
		var goCodes []int
		for _, v := range []gen.Variant{gen.VGo, gen.VGoO, gen.VTs} {
			c.Eval(1)
			r := vr[v.Name]
			if r.Gen.Failed() {
				c.Class("rejected-by-yaccgo")
				break
			}
			if !r.Built || len(r.Lines) < 1 {
				c.Exclude("generated file does not build/run (C16's business)")
				break
			}
			// constants in the file
			consts := map[string]int{}
			for _, m := range reConst.FindAllStringSubmatch(string(r.Source), -1) {
				n, _ := strconv.Atoi(m[2])
				if _, dup := consts[m[1]]; dup {
					return fail("variant %s: constant %s is defined twice in the generated file", v.Name, m[1])
				}
				consts[m[1]] = n
			}
			var t tr
			if err := json.Unmarshal(r.Lines[0], &t); err != nil || len(t.Codes) != len(s.Terms) || len(t.Own) != len(s.Terms) {
				c.Infra("variant %s: unreadable translate result %s", v.Name, clip(string(r.Lines[0]), 200))
				return true
			}
			for k, tm := range s.Terms {
				if !tm.IsLit() {
					// the driver's token table refers to the constant by name, so the
					// file having compiled already shows that it exists; the textual
					// form `const NAME = n` is compared only when it is found
					cv, ok := consts[tm.Name]
					if ok && cv != t.Codes[k] {
						return fail("variant %s: constant %s = %d in the text but %d at run time", v.Name, tm.Name, cv, t.Codes[k])
					}
				}
			}
			if msg := checkCodes(s, t.Codes, "variant "+v.Name+" constants"); msg != "" {
				return fail("%s", msg)
			}
			// translate: a symbol number for every integer
			for k, p := range t.Own {
				if p == nil {
					return fail("variant %s: translate(%d) for the code of %s is not a number", v.Name, t.Codes[k], s.Terms[k].Text())
				}
			}
			if len(t.Translate) != len(probes) {
				c.Infra("variant %s: %d translate results for %d probes", v.Name, len(t.Translate), len(probes))
				return true
			}
			for k, p := range t.Translate {
				if p == nil {
					return fail("variant %s: translate(%d) is not a number (undefined): every integer must be mapped to a symbol, undeclared ones to the error symbol", v.Name, probes[k])
				}
			}
			// injective on declared codes, own symbol
			symOf := map[int]int{}
			for k, symp := range t.Own {
				sym := *symp
				if j, dup := symOf[sym]; dup {
					return fail("variant %s: translate maps the codes of %s and %s to the same symbol %d", v.Name, s.Terms[j].Text(), s.Terms[k].Text(), sym)
				}
				symOf[sym] = k
				if len(t.Names) > 0 {
					if sym < 0 || sym >= len(t.Names) {
						return fail("variant %s: translate(%d) = %d is no symbol", v.Name, t.Codes[k], sym)
					}
					want := traceName(s, k)
					if strings.TrimSpace(t.Names[sym]) != want {
						return fail("variant %s: translate maps the code %d of %s to symbol %d, which is %q", v.Name, t.Codes[k], want, sym, strings.TrimSpace(t.Names[sym]))
					}
				}
			}
			declared := map[int]bool{}
			for _, cd := range t.Codes {
				declared[cd] = true
			}
			eofSym := *t.Translate[0]
			if _, clash := symOf[eofSym]; clash {
				return fail("variant %s: translate(-1) = %d is the symbol of a token", v.Name, eofSym)
			}
			if len(t.Names) > 0 && (eofSym < 0 || eofSym >= len(t.Names) || t.Names[eofSym] != "$") {
				return fail("variant %s: translate(-1) = %d is not the end marker", v.Name, eofSym)
			}
			errSym, haveErr := 0, false
			for k, p := range probes {
				if p == -1 || declared[p] {
					continue
				}
				got := *t.Translate[k]
				if _, clash := symOf[got]; clash || got == eofSym {
					return fail("variant %s: translate(%d) = %d, but %d is not a declared token code", v.Name, p, got, p)
				}
				if haveErr && got != errSym {
					return fail("variant %s: undeclared codes are translated to different symbols (%d and %d)", v.Name, errSym, got)
				}
				errSym, haveErr = got, true
			}
			if v.Name == "go" {
				goCodes = t.Codes
			} else if goCodes != nil && fmt.Sprint(goCodes) != fmt.Sprint(t.Codes) {
				return fail("variant %s assigns the token codes %v, variant go %v", v.Name, t.Codes, goCodes)
			}
			c.Class("consistent:" + v.Name)
		}
		if c11Nontrivial(s) {
			c.Nontrivial(Hash(gc.Text))
			if c.WantSample() {
				c.Sample(map[string]interface{}{"grammar": gc.Text, "codes": goCodes})
			}
		}
	}
	return false
}
