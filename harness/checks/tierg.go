package checks

import (
	"encoding/json"
	"fmt"
	"os"
	"reflect"
	"sort"
	"strings"
	"sync"

	"pgregory.net/rapid"

	"verifharness/gen"
	"verifharness/ref"
	"verifharness/spec"
)

// TGCase is a generated-code case: grammar with abstract actions + inputs.
type TGCase struct {
	Family   string     `json:"family"`
	Spec     *spec.Spec `json:"spec"`
	Inputs   [][]int    `json:"inputs"`
	Variants []string   `json:"variants,omitempty"`
	// NestEvery > 0: during every NestEvery-th parse the action of an early
	// reduction starts a nested parse of the next input (Go variants)
	NestEvery int `json:"nest_every,omitempty"`
	// TraceLate > 0: after the ordinary ops, the first TraceLate inputs are parsed
	// once more with IsTrace switched on only at an early reduction (by an action)
	TraceLate int `json:"trace_late,omitempty"`
	// (rules with Spec.Rules[i].NoAct are written without any action: their
	// reductions are not recorded, so only the differential oracle (C08) and the
	// verdict oracles apply to such a case)
	Text string `json:"grammar_text,omitempty"` // canonical rendering, informational
}

var (
	nodeOnce  sync.Once
	nodePath  string
	nodeFlags []string
	nodeErr   error
)

func (c *Ctx) GenEnv() *gen.Env {
	nodeOnce.Do(func() { nodePath, nodeFlags, nodeErr = gen.FindNode() })
	if nodeErr != nil {
		c.Infra("%v", nodeErr)
	}
	par := 4
	if c.NShards <= 2 {
		par = 8
	}
	return &gen.Env{CLI: c.CLI(), Node: nodePath, NodeFlags: nodeFlags, Par: par}
}

// drawTG draws a tier-G case from the given families.
func drawTG(t *rapid.T, fams []string, maxAll int, nSent int) *TGCase {
	f := rapid.SampledFrom(fams).Draw(t, "family")
	// "plain-<family>": the actions are written the way users write them
	plain := strings.HasPrefix(f, "plain-")
	if plain {
		f = f[len("plain-"):]
	}
	var s *spec.Spec
	name := f
	switch f {
	case "productive":
		s = spec.Productive(t, smallCfg)
	case "lalr":
		s = spec.LALRFamily(t)
	case "separators":
		var n string
		s, n = spec.Separator(t)
		name = "separators/" + n
	case "nullable":
		s = spec.Nullable(t)
	case "samehandle":
		s = spec.SameHandle(t)
	case "bigauto":
		s = spec.BigAuto(t)
	case "prec":
		s = spec.Productive(t, smallCfg)
		spec.WithPrec(t, s)
	case "prec-sep":
		s, _ = spec.Separator(t)
		spec.WithPrec(t, s)
	case "uniform":
		s = spec.Uniform(t, smallCfg)
	case "longrule":
		// rules of every length: one or two rules with 10-14 rhs symbols
		s = spec.Productive(t, spec.Cfg{MaxT: 4, MaxN: 3, MaxR: 5, MaxLen: 3, Lits: true})
		nl := rapid.IntRange(1, 2).Draw(t, "nlong")
		for i := 0; i < nl; i++ {
			k := rapid.IntRange(10, 14).Draw(t, "longlen")
			rhs := make([]int, k)
			for j := range rhs {
				if rapid.IntRange(0, 4).Draw(t, "longnt") == 0 {
					rhs[j] = len(s.Terms) + rapid.IntRange(0, len(s.NTs)-1).Draw(t, "lnt")
				} else {
					rhs[j] = rapid.IntRange(0, len(s.Terms)-1).Draw(t, "lt")
				}
			}
			s.Rules = append(s.Rules, spec.Rule{LHS: rapid.IntRange(0, len(s.NTs)-1).Draw(t, "longlhs"), RHS: rhs, Prec: -1})
		}
	case "dup":
		// a production written twice (the first one wins), further rules after it
		s = spec.Productive(t, smallCfg)
		nd := rapid.IntRange(1, 2).Draw(t, "ndup")
		for i := 0; i < nd; i++ {
			r := s.Rules[rapid.IntRange(0, len(s.Rules)-1).Draw(t, "dup")]
			r.RHS = append([]int{}, r.RHS...)
			at := rapid.IntRange(0, len(s.Rules)).Draw(t, "dupat")
			s.Rules = append(s.Rules[:at:at], append([]spec.Rule{r}, s.Rules[at:]...)...)
		}
	default:
		panic("unknown tier-G family " + f)
	}
	spec.WithSem(t, s)
	if plain {
		spec.MakePlain(t, s)
		name = "plain-" + name
	}
	if rapid.IntRange(0, 4).Draw(t, "eofalias") == 0 {
		s.EOFAlias = "EOFTOK"
	}
	cs := &TGCase{Family: name, Spec: s}
	cs.Inputs = drawInputs(t, s, maxAll, nSent)
	cs.Text = displayText(s)
	return cs
}

// drawInputs: all strings up to the length whose count fits maxAll, sampled
// sentences, and mutated sentences (incl. undeclared token codes).
func drawInputs(t *rapid.T, s *spec.Spec, maxAll, nSent int) [][]int {
	g := s.CFG()
	nt := g.NT
	seen := map[string]bool{}
	var out [][]int
	add := func(w []int) {
		if len(w) > 700 {
			return
		}
		k := fmt.Sprint(w)
		if !seen[k] {
			seen[k] = true
			out = append(out, append([]int{}, w...))
		}
	}
	k := ref.LenFor(nt, maxAll)
	ref.AllStrings(nt, k, func(w []int) bool { add(w); return true })
	// one long sentence (deep stacks: the generated parser's stack must grow)
	if rapid.IntRange(0, 2).Draw(t, "longsentence") == 0 {
		ch := make([]int, rapid.IntRange(100, 400).Draw(t, "longchoices"))
		for j := range ch {
			ch[j] = rapid.IntRange(0, 7).Draw(t, "lchoice")
		}
		if w := g.Derive(ch, 600); w != nil {
			add(w)
		}
	}
	for i := 0; i < nSent; i++ {
		nch := rapid.IntRange(0, 30).Draw(t, "nchoices")
		ch := make([]int, nch)
		for j := range ch {
			ch[j] = rapid.IntRange(0, 7).Draw(t, "choice")
		}
		w := g.Derive(ch, 25)
		if w == nil {
			break
		}
		add(w)
		// mutations
		m := append([]int{}, w...)
		switch rapid.IntRange(0, 5).Draw(t, "mut") {
		case 0:
			if len(m) > 0 {
				p := rapid.IntRange(0, len(m)-1).Draw(t, "mp")
				m = append(m[:p], m[p+1:]...)
			}
		case 1:
			p := rapid.IntRange(0, len(m)).Draw(t, "mp")
			x := rapid.IntRange(0, nt-1).Draw(t, "mt")
			m = append(m[:p:p], append([]int{x}, m[p:]...)...)
		case 2:
			if len(m) > 0 {
				p := rapid.IntRange(0, len(m)-1).Draw(t, "mp")
				m[p] = rapid.IntRange(0, nt-1).Draw(t, "mt")
			}
		case 3:
			if len(m) > 1 {
				p := rapid.IntRange(0, len(m)-2).Draw(t, "mp")
				m[p], m[p+1] = m[p+1], m[p]
			}
		case 4:
			// an undeclared token code somewhere
			p := rapid.IntRange(0, len(m)).Draw(t, "mp")
			x := nt + rapid.IntRange(0, 3).Draw(t, "unk")
			m = append(m[:p:p], append([]int{x}, m[p:]...)...)
		case 5:
			m = append(m, rapid.IntRange(0, nt-1).Draw(t, "mt"))
		}
		add(m)
	}
	return out
}

// tgRef holds the reference facts of a case.
type tgRef struct {
	g            *ref.CFG
	accepted     bool // reference predicate "usable"
	conflictFree bool
	hasPrec      bool
	class        string
	lr1ok        bool
	tables       *ref.LRTables // reference parser, nil unless the parse is unique (up to identical productions)
}

func refFacts(s *spec.Spec) *tgRef {
	g := s.CFG()
	r := &tgRef{g: g, hasPrec: len(s.Prec) > 0}
	r.accepted = g.AllProductive()
	if !r.accepted {
		return r
	}
	lr0, ok := g.BuildLR0(3000)
	if !ok {
		return r
	}
	la, _, ok := g.LALRLookaheads(lr0, lr1Cap)
	if !ok {
		return r
	}
	r.lr1ok = true
	if !r.hasPrec {
		if tb := ref.NewLRTables(g, lr0, la); tb.Usable {
			r.tables = tb
		}
	}
	r.conflictFree = len(g.Conflicts(lr0, la)) == 0
	if r.conflictFree {
		r.class = g.Class(lr0, la)
	} else {
		r.class = "conflicted"
	}
	return r
}

// wordOf maps driver input bytes to reference terminals (-1 for undeclared codes).
func wordOf(s *spec.Spec, in []int) ([]int, bool) {
	w := make([]int, len(in))
	unk := false
	for i, x := range in {
		if x < len(s.Terms) {
			w[i] = x
		} else {
			w[i] = -1
			unk = true
		}
	}
	return w, unk
}

// refValue evaluates the abstract actions over the tree (integer fields).
func refValue(s *spec.Spec, tree *ref.Tree) ref.Value {
	return tree.Eval(ref.EvalFuncs{
		Token: func(pos, term int) ref.Value {
			tag := s.Terms[term].Tag
			if tag == "" {
				return ref.Value{}
			}
			if gen.FieldIsString(tag) {
				return ref.Value{S: gen.TokenStrValue(s, pos, term)}
			}
			return ref.Value{I: gen.TokenIntValue(pos, term)}
		},
		Rule: func(rule int, kids []ref.Value) ref.Value {
			m := s.Rules[rule-1].Sem
			if m == nil {
				return ref.Value{}
			}
			switch m.Kind {
			case "copy":
				return kids[m.Terms[0].Pos-1]
			case "lin":
				v := m.C0
				for _, t := range m.Terms {
					v += t.Coef * kids[t.Pos-1].I
				}
				return ref.Value{I: v % spec.SemMod}
			case "cat":
				out := ""
				for _, p := range m.Parts {
					if p.Pos > 0 {
						out += kids[p.Pos-1].S
					} else {
						out += p.Text
					}
				}
				return ref.Value{S: out}
			}
			return ref.Value{}
		},
	})
}

func variantsByName(names []string) []gen.Variant {
	if len(names) == 0 {
		return gen.AllVariants
	}
	var out []gen.Variant
	for _, n := range names {
		if v, ok := gen.VariantByName(n); ok {
			out = append(out, v)
		}
	}
	return out
}

// runTG generates, builds and runs the cases; ops = one parse per input.
func runTG(c *Ctx, cases []*TGCase, trace bool) (map[string]map[string]*gen.VRes, func()) {
	dir, err := os.MkdirTemp(c.OutDir, "tg-")
	if err != nil {
		c.Infra("mkdtemp: %v", err)
		return nil, func() {}
	}
	cleanup := func() { os.RemoveAll(dir) }
	var jobs []*gen.Job
	for i, cs := range cases {
		j := &gen.Job{ID: fmt.Sprintf("g%d", i), Spec: cs.Spec, Variants: variantsByName(cs.Variants)}
		for k, in := range cs.Inputs {
			op := gen.Op{Op: "parse", Init: true, In: in, Trace: trace}
			if cs.NestEvery > 0 && k%cs.NestEvery == cs.NestEvery-1 {
				op.NestAt = 1 + k%3
				op.NestIn = cs.Inputs[(k+1)%len(cs.Inputs)]
			}
			j.Ops = append(j.Ops, op)
		}
		for k := 0; k < cs.TraceLate && k < len(cs.Inputs); k++ {
			j.Ops = append(j.Ops, gen.Op{Op: "parse", Init: true, In: cs.Inputs[k], TraceAt: 1 + k%3})
		}
		jobs = append(jobs, j)
	}
	env := c.GenEnv()
	if c.P.Infra != "" {
		return nil, cleanup
	}
	res, err := gen.RunBatch(env, dir, jobs)
	if err != nil {
		c.Infra("batch: %v", err)
		return nil, cleanup
	}
	return res, cleanup
}

// TGViolation is one finding of the shared tier-G evaluator.
type TGViolation struct {
	Prop    string
	Msg     string
	Input   []int
	Variant string
}

func inputNames(s *spec.Spec, in []int) string {
	var o []string
	for _, x := range in {
		if x < len(s.Terms) {
			o = append(o, s.Terms[x].Text())
		} else {
			o = append(o, fmt.Sprintf("<undeclared code #%d>", x-len(s.Terms)))
		}
	}
	return "[" + strings.Join(o, " ") + "]"
}

// evalTG applies the oracles of C01, C02, C06, C07, C08 (and C16: the file
// must build) to the outcome of one case. props selects which to report.
func evalTG(c *Ctx, cs *TGCase, vr map[string]*gen.VRes, props map[string]bool) []TGViolation {
	var out []TGViolation
	s := cs.Spec
	rf := refFacts(s)
	variants := variantsByName(cs.Variants)
	add := func(p, variant string, in []int, format string, a ...interface{}) {
		if props[p] {
			out = append(out, TGViolation{Prop: p, Msg: fmt.Sprintf(format, a...), Input: in, Variant: variant})
		}
	}
	// generation / build status
	genFailed := 0
	for _, v := range variants {
		r := vr[v.Name]
		if r == nil {
			continue
		}
		if r.Gen.TimedOut {
			c.Inconclusive("generation timed out")
			return out
		}
		if r.Gen.EnvironmentFailure() {
			c.Infra("variant %s: the yaccgo CLI failed for a reason that is not its verdict on the grammar (exit %d): %s", v.Name, r.Gen.Exit, clip(r.Gen.Stderr, 300))
			return out
		}
		if r.Gen.Failed() {
			genFailed++
		}
	}
	if genFailed == len(variants) {
		c.Class("rejected-by-yaccgo")
		if rf.accepted {
			add("C12", "", nil, "yaccgo refused a usable grammar: %s", clip(vr[variants[0].Name].Gen.Stderr, 300))
		}
		return out
	}
	if genFailed > 0 {
		// no parser to compare for some variant: C12/C16's business, not a disagreement between parsers
		c.Exclude("generation succeeded for some variants and failed for others (C12/C16's business)")
		add("C12", "", nil, "generation succeeded for some variants and failed for others")
		return out
	}
	nBuilt := 0
	for _, v := range variants {
		if vr[v.Name].Built {
			nBuilt++
		}
	}
	for _, v := range variants {
		r := vr[v.Name]
		if !r.Built && !looksLikeLanguageError(v, r.BuildErr) {
			c.Infra("variant %s: toolchain failure that is not a compile/load diagnostic: %s", v.Name, clip(r.BuildErr, 400))
			return out
		}
		if !r.Built {
			add("C16", v.Name, nil, "variant %s: generated file does not build/load:\n%s", v.Name, clip(r.BuildErr, 1200))
			if nBuilt > 0 && looksLikeLanguageError(v, r.BuildErr) {
				// the same user code (driver epilogue, which only uses the documented
				// API of each form) builds against some variants and not against this one
				add("C08", v.Name, nil, "variant %s cannot be built with the driver code that the other variants accept: it does not offer the same parser interface\n%s", v.Name, clip(r.BuildErr, 800))
			}
			c.Class("does-not-build")
			return out
		}
		if r.TimedOut {
			c.Inconclusive("driver run timed out")
			return out
		}
		if r.RunErr != "" && len(r.Lines) < len(cs.Inputs) {
			if strings.Contains(r.RunErr, "panic:") || strings.Contains(r.RunErr, "fatal error:") || strings.Contains(r.RunErr, "Error") {
				add("C06", v.Name, nil, "variant %s: the parser brought the whole process down instead of reporting a grammar error: %s", v.Name, r.RunErr)
			} else {
				c.Inconclusive("driver process ended abnormally without a language-level diagnostic (killed?)")
			}
			return out
		}
	}
	c.Class("built-and-run")
	c.Class("class:" + rf.class)
	hasNoAct, hasPlain := false, false
	for _, r := range s.Rules {
		hasNoAct = hasNoAct || r.NoAct
		hasPlain = hasPlain || r.Plain
	}
	for i, in := range cs.Inputs {
		w, unk := wordOf(s, in)
		mem := !unk && rf.g.Member(w)
		var first *gen.Res
		firstV := ""
		for _, v := range variants {
			r, err := vr[v.Name].ParseRes(i)
			if err != nil {
				c.Infra("variant %s input %d: %v", v.Name, i, err)
				return out
			}
			c.Eval(1)
			// ---- C01
			if r.Verdict == "accept" {
				if unk {
					add("C01", v.Name, in, "variant %s accepted %s, which contains a token code that is not declared", v.Name, inputNames(s, in))
				} else if hasNoAct || hasPlain {
					// reductions of action-less rules and of rules with plain actions are not recorded: no derivation to check
				} else if err := rf.g.CheckDerivation(r.Trace, w); err != nil {
					add("C01", v.Name, in, "variant %s accepted %s but its reductions %v are not a rightmost derivation of the input in reverse: %v", v.Name, inputNames(s, in), r.Trace, err)
				} else if len(r.Trace) >= 3 && props["C01"] {
					c.Nontrivial(Hash("C01", cs.Text, fmt.Sprint(in)))
				}
				if !mem {
					add("C06", v.Name, in, "variant %s returned a result for %s, which is not a sentence of the grammar", v.Name, inputNames(s, in))
				}
			}
			// ---- C02
			if mem && rf.conflictFree && !rf.hasPrec {
				if r.Verdict != "accept" {
					add("C02", v.Name, in, "variant %s does not accept the sentence %s of an LALR(1) grammar (class %s): verdict %s %s", v.Name, inputNames(s, in), rf.class, r.Verdict, clip(r.Msg, 200))
				} else if len(in) >= 2 && props["C02"] {
					c.Nontrivial(Hash("C02", cs.Text, fmt.Sprint(in)))
					c.Class("sentence-accepted:" + rf.class)
				}
			}
			// ---- C06
			if r.Verdict != "accept" {
				switch r.Verdict {
				case "syntax":
				case "loop":
					if rf.conflictFree {
						add("C06", v.Name, in, "variant %s does not reject %s after finitely many steps (more than %d reductions) although the grammar is conflict-free", v.Name, inputNames(s, in), gen.StepLimit)
					} else if props["C06"] {
						c.Inconclusive("reduction loop in a conflicted grammar (allowed)")
					}
				default:
					add("C06", v.Name, in, "variant %s signals the rejection of %s through %q (%s) instead of the documented grammar error", v.Name, inputNames(s, in), r.Verdict, clip(r.Msg, 300))
				}
				if r.Verdict == "syntax" && rf.conflictFree && rf.lr1ok && !mem {
					L := rf.g.ViablePrefixLen(w)
					wantFetched := L + 1
					if r.Fetched != wantFetched {
						add("C06", v.Name, in, "variant %s rejected %s after requesting %d token(s) from the lexer; the first token that cannot continue any sentence is at index %d, so exactly %d token(s) (incl. the end marker when the input is a proper prefix) may be requested", v.Name, inputNames(s, in), r.Fetched, L, wantFetched)
					} else if L >= 1 && L < len(w) && props["C06"] {
						c.Nontrivial(Hash("C06", cs.Text, fmt.Sprint(in)))
					}
				}
			}
			// ---- C07
			if r.Verdict == "accept" && !unk && !hasNoAct {
				// the tree: from the reference parser when the parse is unique,
				// otherwise from the (C01-validated) reductions of the run itself
				var tree *ref.Tree
				src := "the reductions performed"
				if rf.tables != nil {
					if reds, ok := rf.tables.Parse(w); ok {
						tree, _ = rf.g.BuildTree(reds, w)
						src = "the grammar's unique parse tree"
					}
				}
				if tree == nil && !hasPlain {
					tree, _ = rf.g.BuildTree(r.Trace, w)
				}
				if tree != nil {
					want := refValue(s, tree)
					tag := s.NTs[s.Start].Tag
					if tag != "" {
						got := r.Val[tag]
						ok := false
						if gen.FieldIsString(tag) {
							gs, _ := got.(string)
							ok = gs == want.S
						} else {
							gf, isf := got.(float64)
							ok = isf && int(gf) == want.I
						}
						if !ok {
							add("C07", v.Name, in, "variant %s: value of the start symbol (field %s) for %s is %v, bottom-up evaluation of the actions over %s gives %v (reductions reported %v)", v.Name, tag, inputNames(s, in), got, src, wantOf(tag, want), r.Trace)
						} else if props["C07"] && c07Nontrivial(s, tree) {
							c.Nontrivial(Hash("C07", cs.Text, fmt.Sprint(in)))
						}
					}
				}
			}
			// ---- C08
			if first == nil {
				first, firstV = r, v.Name
			} else {
				if d := diffRes(first, r); d != "" {
					add("C08", v.Name, in, "variants %s and %s disagree on %s: %s", firstV, v.Name, inputNames(s, in), d)
				}
			}
		}
		if first != nil && props["C08"] && len(first.Trace) >= 2 {
			c.Nontrivial(Hash("C08", cs.Text, fmt.Sprint(in)))
			if first.Verdict == "accept" {
				c.Class("agree:accepted-with>=2-reductions")
			} else {
				c.Class("agree:rejected-with>=2-reductions")
			}
		}
	}
	return out
}

func wantOf(tag string, v ref.Value) interface{} {
	if gen.FieldIsString(tag) {
		return v.S
	}
	return v.I
}

func c07Nontrivial(s *spec.Spec, t *ref.Tree) bool {
	long, eps := false, false
	var walk func(n *ref.Tree)
	walk = func(n *ref.Tree) {
		if n.Rule > 0 {
			r := s.Rules[n.Rule-1]
			if len(r.RHS) == 0 {
				eps = true
			}
			if len(r.RHS) >= 3 && r.Sem != nil {
				for _, tm := range r.Sem.Terms {
					if tm.Pos >= 2 {
						long = true
					}
				}
			}
		}
		for _, k := range n.Kids {
			walk(k)
		}
	}
	walk(t)
	return long && eps && t.Depth() >= 4
}

func verdictClass(v string) string { return v }

func diffRes(a, b *gen.Res) string {
	if a.Verdict != b.Verdict {
		return fmt.Sprintf("verdict %s (%s) vs %s (%s)", a.Verdict, clip(a.Msg, 120), b.Verdict, clip(b.Msg, 120))
	}
	if !reflect.DeepEqual(normTrace(a.Trace), normTrace(b.Trace)) {
		return fmt.Sprintf("reductions %v vs %v", a.Trace, b.Trace)
	}
	if a.Verdict == "accept" && !reflect.DeepEqual(a.Val, b.Val) {
		return fmt.Sprintf("value %v vs %v", a.Val, b.Val)
	}
	if a.Fetched != b.Fetched {
		return fmt.Sprintf("tokens requested %d vs %d", a.Fetched, b.Fetched)
	}
	return ""
}

func normTrace(t []int) []int {
	if t == nil {
		return []int{}
	}
	return t
}

// tgUnit registers the standard tier-G unit for a property.
func tgUnit(prop, name string, fams []string, quickN, thoroughN int, shardsQ, shardsT int, maxAll, nSent int) {
	props := map[string]bool{prop: true}
	Register(&Unit{Prop: prop, Name: name,
		Shards: func(tier string) int { return map[string]int{"quick": shardsQ, "thorough": shardsT}[tier] },
		Run: func(c *Ctx) {
			n := c.Pick(quickN, thoroughN)
			batch := 24
			g := rapid.Custom(func(t *rapid.T) *TGCase { return drawTG(t, fams, maxAll, nSent) })
			done := 0
			for done < n {
				k := batch
				if n-done < k {
					k = n - done
				}
				var cases []*TGCase
				for i := 0; i < k; i++ {
					cases = append(cases, g.Example(int(c.SubSeed("case", done+i)>>1)))
				}
				if stop := runAndEvalTG(c, cases, props); stop {
					return
				}
				done += k
			}
		},
		Replay: func(c *Ctx, raw json.RawMessage) string {
			var cs TGCase
			if m := decodeCase(raw, &cs); m != "" {
				return m
			}
			res, cleanup := runTG(c, []*TGCase{&cs}, false)
			defer cleanup()
			if res == nil {
				return ""
			}
			vs := evalTG(c, &cs, res["g0"], props)
			if len(vs) > 0 {
				return vs[0].Msg + "\n" + cs.Spec.Render(spec.RenderOpts{})
			}
			return ""
		},
	})
}

// runAndEvalTG runs a batch and reports violations (first per case). Returns
// true when the unit should stop (a violation was found).
func runAndEvalTG(c *Ctx, cases []*TGCase, props map[string]bool) bool {
	res, cleanup := runTG(c, cases, false)
	defer cleanup()
	if res == nil {
		return true
	}
	stop := false
	for i, cs := range cases {
		vs := evalTG(c, cs, res[fmt.Sprintf("g%d", i)], props)
		if len(vs) == 0 {
			if c.WantSample() && len(cs.Inputs) > 3 {
				c.Sample(map[string]interface{}{"family": cs.Family, "grammar": cs.Text, "inputs": len(cs.Inputs), "example_input": inputNames(cs.Spec, cs.Inputs[len(cs.Inputs)/2]), "variants": len(variantsByName(cs.Variants))})
			}
			continue
		}
		// report the first violation with a case reduced to the failing input
		sort.SliceStable(vs, func(a, b int) bool { return len(vs[a].Input) < len(vs[b].Input) })
		v := vs[0]
		small := *cs
		if v.Input != nil {
			small.Inputs = [][]int{v.Input}
		}
		small = *shrinkTG(c, &small, props, v.Prop)
		c.Violate(&small, v.Msg+"\ngrammar:\n"+small.Spec.Render(spec.RenderOpts{}))
		stop = true
		break
	}
	return stop
}

// shrinkTG: structural minimisation, bounded; each step regenerates, rebuilds
// and reruns the case. Keeps a candidate only if the same property still fails.
func shrinkTG(c *Ctx, cs *TGCase, props map[string]bool, prop string) *TGCase {
	fails := func(x *TGCase) bool {
		if !x.Spec.CFG().AllProductive() {
			return false
		}
		res, cleanup := runTG(c, []*TGCase{x}, false)
		defer cleanup()
		if res == nil {
			return false
		}
		for _, v := range evalTG(c, x, res["g0"], props) {
			if v.Prop == prop {
				return true
			}
		}
		return false
	}
	cur := cs
	budget := 40
	for changed := true; changed && budget > 0; {
		changed = false
		// drop a rule
		for i := len(cur.Spec.Rules) - 1; i >= 0 && budget > 0; i-- {
			cand := *cur
			cand.Spec = cur.Spec.Clone()
			cand.Spec.Rules = append(cand.Spec.Rules[:i:i], cand.Spec.Rules[i+1:]...)
			if !rulesCoverNTs(cand.Spec) {
				continue
			}
			budget--
			cand.Text = cand.Spec.Render(spec.RenderOpts{})
			if fails(&cand) {
				cur = &cand
				changed = true
			}
		}
		// drop a token of the input
		if len(cur.Inputs) == 1 {
			for i := len(cur.Inputs[0]) - 1; i >= 0 && budget > 0; i-- {
				cand := *cur
				in := append([]int{}, cur.Inputs[0]...)
				in = append(in[:i], in[i+1:]...)
				cand.Inputs = [][]int{in}
				budget--
				if fails(&cand) {
					cur = &cand
					changed = true
				}
			}
		}
		// drop precedence lines
		if len(cur.Spec.Prec) > 0 && budget > 0 {
			cand := *cur
			cand.Spec = cur.Spec.Clone()
			cand.Spec.Prec = nil
			for i := range cand.Spec.Rules {
				cand.Spec.Rules[i].Prec = -1
			}
			for i := range cand.Spec.Terms {
				if cand.Spec.Terms[i].Decl == "prec" {
					cand.Spec.Terms[i].Decl = "token"
				}
			}
			budget--
			cand.Text = cand.Spec.Render(spec.RenderOpts{})
			if fails(&cand) {
				cur = &cand
				changed = true
			}
		}
	}
	return cur
}

// rulesCoverNTs: every nonterminal that is used (or is the start) has a rule.
func rulesCoverNTs(s *spec.Spec) bool {
	has := make([]bool, len(s.NTs))
	for _, r := range s.Rules {
		has[r.LHS] = true
	}
	if !has[s.Start] {
		return false
	}
	for _, r := range s.Rules {
		for _, x := range r.RHS {
			if x >= len(s.Terms) && !has[x-len(s.Terms)] {
				return false
			}
		}
	}
	// nonterminals without rules and without uses are fine only if untagged
	for i, n := range s.NTs {
		if !has[i] && n.Tag != "" {
			return false
		}
	}
	return true
}

// displayText renders the spec for messages and samples with a %union that
// matches its fields (the driver files carry the real prologue/epilogue).
func displayText(s *spec.Spec) string {
	d := s.Clone()
	d.Fields = s.Fields
	d.SetLang("go")
	return d.Render(spec.RenderOpts{})
}
