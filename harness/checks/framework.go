// Package checks holds one file per property plus the small framework that
// runs them: units (legs of a property), sharding over processes, evidence
// collection, replay files, known findings.
package checks

import (
	"encoding/json"
	"flag"
	"fmt"
	"hash/fnv"
	"os"
	"path/filepath"
	"sort"
	"strings"
	"sync"
	"testing"
	"time"

	"pgregory.net/rapid"

	"verifharness/gen"
)

// Unit is one leg of a property check, executed in its own process per shard.
type Unit struct {
	Prop string
	Name string
	// Shards returns the number of shards for a tier.
	Shards func(tier string) int
	// Run executes shard c.Shard of c.NShards.
	Run func(c *Ctx)
	// Replay re-evaluates one saved case (raw JSON) without any generator.
	// It returns a non-empty message when the case violates the property.
	Replay func(c *Ctx, raw json.RawMessage) string
	// Timeout per shard process.
	Timeout func(tier string) time.Duration
}

var registry []*Unit

func Register(u *Unit) { registry = append(registry, u) }

func UnitsOf(prop string) []*Unit {
	var out []*Unit
	for _, u := range registry {
		if u.Prop == prop {
			out = append(out, u)
		}
	}
	return out
}

func FindUnit(prop, name string) *Unit {
	for _, u := range registry {
		if u.Prop == prop && u.Name == name {
			return u
		}
	}
	return nil
}

func Props() []string {
	seen := map[string]bool{}
	var out []string
	for _, u := range registry {
		if !seen[u.Prop] {
			seen[u.Prop] = true
			out = append(out, u.Prop)
		}
	}
	sort.Strings(out)
	return out
}

// Violation found by a unit.
type Violation struct {
	Message string `json:"message"`
	Replay  string `json:"replay"`
}

// Partial is the evidence of one unit shard.
type Partial struct {
	Prop         string            `json:"prop"`
	Unit         string            `json:"unit"`
	Shard        int               `json:"shard"`
	Seed         uint64            `json:"seed"`
	Evaluations  int               `json:"evaluations"`
	Nontrivial   []uint64          `json:"nontrivial"`
	Samples      []interface{}     `json:"samples"`
	Classes      map[string]int    `json:"classes"`
	Excluded     map[string]int    `json:"excluded"`
	Inconclusive map[string]int    `json:"inconclusive"`
	Violations   []Violation       `json:"violations"`
	Known        []string          `json:"known"`
	Notes        map[string]string `json:"notes"`
	Exhaustive   []string          `json:"exhaustive"`
	Wall         float64           `json:"wall_s"`
	Infra        string            `json:"infra"`
	Rule         string            `json:"rule"`
}

// Ctx is handed to a unit.
type Ctx struct {
	Unit    *Unit
	Tier    string
	Base    int64  // VERIF_SEED
	Seed    uint64 // derived, never 0
	Shard   int
	NShards int
	OutDir  string // scratch dir for this run (partials)
	Verif   string // /verif
	Repo    string // /repo

	mu       sync.Mutex
	P        Partial
	ntSet    map[uint64]bool
	lastFail *failRec
	maxSamp  int
	start    time.Time
	inRepeat bool
}

type failRec struct {
	Case interface{}
	Msg  string
}

func (c *Ctx) Thorough() bool { return c.Tier == "thorough" }

// Pick returns q for the quick tier and t for the thorough tier.
func (c *Ctx) Pick(q, t int) int {
	if c.Thorough() {
		return t
	}
	return q
}

func (c *Ctx) Eval(n int) {
	c.mu.Lock()
	c.P.Evaluations += n
	c.mu.Unlock()
}

func (c *Ctx) Class(name string) {
	c.mu.Lock()
	c.P.Classes[name]++
	c.mu.Unlock()
}

func (c *Ctx) ClassN(name string, n int) {
	c.mu.Lock()
	c.P.Classes[name] += n
	c.mu.Unlock()
}

func (c *Ctx) Exclude(name string) {
	c.mu.Lock()
	c.P.Excluded[name]++
	c.mu.Unlock()
}

func (c *Ctx) Inconclusive(name string) {
	c.mu.Lock()
	c.P.Inconclusive[name]++
	c.mu.Unlock()
}

func Hash(parts ...string) uint64 {
	h := fnv.New64a()
	for _, p := range parts {
		h.Write([]byte(p))
		h.Write([]byte{0})
	}
	return h.Sum64()
}

// Nontrivial records a distinct non-trivial case by hash.
func (c *Ctx) Nontrivial(h uint64) {
	c.mu.Lock()
	if !c.ntSet[h] {
		c.ntSet[h] = true
	}
	c.mu.Unlock()
}

// Sample keeps the first few samples.
func (c *Ctx) Sample(s interface{}) {
	c.mu.Lock()
	if len(c.P.Samples) < c.maxSamp {
		c.P.Samples = append(c.P.Samples, s)
	}
	c.mu.Unlock()
}

func (c *Ctx) WantSample() bool {
	c.mu.Lock()
	defer c.mu.Unlock()
	return len(c.P.Samples) < c.maxSamp
}

func (c *Ctx) Note(k, v string) {
	c.mu.Lock()
	c.P.Notes[k] = v
	c.mu.Unlock()
}

func (c *Ctx) Known(line string) {
	c.mu.Lock()
	for _, k := range c.P.Known {
		if k == line {
			c.mu.Unlock()
			return
		}
	}
	c.P.Known = append(c.P.Known, line)
	c.mu.Unlock()
}

func (c *Ctx) Infra(format string, a ...interface{}) {
	c.mu.Lock()
	if c.P.Infra == "" {
		c.P.Infra = fmt.Sprintf(format, a...)
	}
	c.mu.Unlock()
}

// Fail remembers the failing case of the current rapid run (the last call
// wins: rapid re-runs the minimal case last).
func (c *Ctx) Fail(cs interface{}, msg string) {
	c.mu.Lock()
	c.lastFail = &failRec{Case: cs, Msg: msg}
	c.mu.Unlock()
}

// ReplayFile is the on-disk form of a failing (or regression) case.
type ReplayFile struct {
	Property string          `json:"property"`
	Unit     string          `json:"unit"`
	Message  string          `json:"message,omitempty"`
	Note     string          `json:"note,omitempty"`
	Case     json.RawMessage `json:"case"`
}

var violSeq int

// Violate writes a replay file and records the violation.
func (c *Ctx) Violate(cs interface{}, msg string) {
	raw, err := json.MarshalIndent(cs, "", " ")
	if err != nil {
		raw = []byte(fmt.Sprintf("%q", fmt.Sprint(cs)))
	}
	rf := ReplayFile{Property: c.Unit.Prop, Unit: c.Unit.Name, Message: msg, Case: raw}
	dir := filepath.Join(c.Verif, "replays")
	os.MkdirAll(dir, 0o755)
	c.mu.Lock()
	violSeq++
	n := violSeq
	c.mu.Unlock()
	path := filepath.Join(dir, fmt.Sprintf("%s-%s-s%d-%d-%d.json", c.Unit.Prop, c.Unit.Name, c.Base, c.Shard, n))
	b, _ := json.MarshalIndent(rf, "", " ")
	if err := os.WriteFile(path, b, 0o644); err != nil {
		c.Infra("cannot write replay file: %v", err)
	}
	c.mu.Lock()
	c.P.Violations = append(c.P.Violations, Violation{Message: firstLines(msg, 12), Replay: path})
	c.mu.Unlock()
}

func firstLines(s string, n int) string {
	l := strings.Split(s, "\n")
	if len(l) > n {
		l = append(l[:n], "...")
	}
	return strings.Join(l, "\n")
}

// capTB lets rapid run outside `go test` and captures its verdict.
type capTB struct {
	name   string
	failed bool
	msgs   []string
	logs   []string
}

func (t *capTB) Helper()      {}
func (t *capTB) Name() string { return t.name }
func (t *capTB) Logf(f string, a ...any) {
	if len(t.logs) < 200 {
		t.logs = append(t.logs, fmt.Sprintf(f, a...))
	}
}
func (t *capTB) Log(a ...any)             { t.Logf("%s", fmt.Sprint(a...)) }
func (t *capTB) Skipf(f string, a ...any) {}
func (t *capTB) Skip(a ...any)            {}
func (t *capTB) SkipNow()                 {}
func (t *capTB) Errorf(f string, a ...any) {
	t.failed = true
	t.msgs = append(t.msgs, fmt.Sprintf(f, a...))
}
func (t *capTB) Error(a ...any)            { t.Errorf("%s", fmt.Sprint(a...)) }
func (t *capTB) Fatalf(f string, a ...any) { t.Errorf(f, a...) }
func (t *capTB) Fatal(a ...any)            { t.Errorf("%s", fmt.Sprint(a...)) }
func (t *capTB) FailNow()                  {}
func (t *capTB) Fail()                     { t.failed = true }
func (t *capTB) Failed() bool              { return t.failed }

var rapidInit sync.Once

// Rapid runs prop for `checks` cases with rapid, seeded from the context. If
// a case fails, the minimal failing case recorded through c.Fail is written as
// a violation. Returns true when the property held.
func (c *Ctx) Rapid(name string, checks int, prop func(t *rapid.T)) bool {
	rapidInit.Do(func() {
		testing.Init()
		flag.CommandLine.Parse([]string{})
	})
	seed := Hash(fmt.Sprint(c.Seed), name)
	if seed == 0 {
		seed = 1
	}
	flag.Set("rapid.checks", fmt.Sprint(checks))
	flag.Set("rapid.seed", fmt.Sprint(seed))
	flag.Set("rapid.nofailfile", "true")
	st := "30s"
	if c.Thorough() {
		st = "90s"
	}
	flag.Set("rapid.shrinktime", st)
	c.mu.Lock()
	c.lastFail = nil
	c.mu.Unlock()
	tb := &capTB{name: c.Unit.Prop + "_" + c.Unit.Name + "_" + name}
	func() {
		defer func() {
			if e := recover(); e != nil {
				tb.failed = true
				tb.msgs = append(tb.msgs, fmt.Sprint("panic in rapid run: ", e))
			}
		}()
		rapid.Check(tb, prop)
	}()
	if !tb.failed {
		return true
	}
	msg := strings.Join(tb.msgs, "\n")
	c.mu.Lock()
	lf := c.lastFail
	c.mu.Unlock()
	if lf == nil {
		// a failure that did not go through c.Fail: generator problem or panic
		if strings.Contains(msg, "only generated") {
			c.Infra("rapid: %s", msg)
			return false
		}
		c.Violate(map[string]string{"rapid": msg}, "unclassified failure in "+name+": "+msg)
		return false
	}
	m := lf.Msg
	if strings.Contains(msg, "flaky test") {
		m += "\n(rapid reported the failure as not reproducible from the same draws: the outcome depends on something other than the input, e.g. map iteration order)"
	}
	c.Violate(lf.Case, m)
	return false
}

func newCtx(u *Unit, tier string, base int64, shard, nshards int, outdir string) *Ctx {
	c := &Ctx{Unit: u, Tier: tier, Base: base, Shard: shard, NShards: nshards, OutDir: outdir,
		Verif: envOr("VERIF_DIR", "/verif"), Repo: envOr("VERIF_REPO", "/repo"),
		ntSet: map[uint64]bool{}, maxSamp: 3, start: time.Now()}
	c.Seed = Hash(fmt.Sprint(base), u.Prop, u.Name, fmt.Sprint(shard))
	if c.Seed == 0 {
		c.Seed = 1
	}
	c.P = Partial{Prop: u.Prop, Unit: u.Name, Shard: shard, Seed: c.Seed,
		Classes: map[string]int{}, Excluded: map[string]int{}, Inconclusive: map[string]int{}, Notes: map[string]string{}}
	return c
}

func envOr(k, d string) string {
	if v := os.Getenv(k); v != "" {
		return v
	}
	return d
}

func (c *Ctx) finish() {
	c.P.Wall = time.Since(c.start).Seconds()
	for h := range c.ntSet {
		c.P.Nontrivial = append(c.P.Nontrivial, h)
	}
	sort.Slice(c.P.Nontrivial, func(i, j int) bool { return c.P.Nontrivial[i] < c.P.Nontrivial[j] })
}

// CLI returns the path of the yaccgo command built from /repo for this run
// (the orchestrator builds it once; replays build it on demand).
func (c *Ctx) CLI() string {
	p := filepath.Join(c.OutDir, "yaccgo-cli")
	if _, err := os.Stat(p); err == nil {
		return p
	}
	if err := gen.BuildCLI(filepath.Join(c.Verif, "harness"), p); err != nil {
		c.Infra("%v", err)
	}
	return p
}

// SubSeed derives a deterministic non-zero seed for a named sub-task.
func (c *Ctx) SubSeed(name string, i int) uint64 {
	s := Hash(fmt.Sprint(c.Seed), name, fmt.Sprint(i))
	if s == 0 {
		s = 1
	}
	return s
}

// Elapsed since the unit started.
func (c *Ctx) Elapsed() time.Duration { return time.Since(c.start) }
