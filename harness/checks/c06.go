package checks

func init() {
	Describe("C06", &PropInfo{
		Rule: "all accepted grammars x non-sentences (every string up to a length bound, mutated sentences, undeclared token codes) x five variants. Every rejection must be the documented signal (Go: panic text starting with 'Grammar error'; TypeScript: console.error + null), never a crash, a nil return without error, or a result. Conflict-free grammars (by the reference) additionally: the parse ends, and the number of tokens requested from the lexer equals (index of the first token that cannot continue any sentence) + 1. Non-trivial = a non-sentence of a conflict-free grammar whose error position is >= 1 and < length; distinct by grammar text + input",
		Assumptions: []string{
			"the first bad token is computed with an Earley recogniser: the longest prefix with a non-empty Earley set is viable because every nonterminal of an accepted grammar is productive",
			"a shifted bad token would force a further fetch, so the fetch count captures both halves of 'never shifted and no token after it is requested'",
			"conflicted grammars may loop on empty reductions: counted as inconclusive, never a violation",
		},
		Explanation: "verdict class of every rejected input + fetch count vs the viable-prefix oracle",
	})
	tgUnit("C06", "errors", []string{"productive", "lalr", "separators", "nullable", "prec", "prec-sep"}, 36, 500, 4, 8, 150, 12)
}
