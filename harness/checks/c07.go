package checks

func init() {
	Describe("C07", &PropInfo{
		Rule: "grammars with 2-4 integer union fields, random tag assignment to tokens and nonterminals (some untagged), rules of length 0-14 (a dedicated family adds rules with 10-14 symbols whose actions use $10 and beyond; another repeats a production) and actions `$$ = (c0 + c1*$i + c2*$j ...) % 1000003` over the tagged positions with pairwise distinct prime coefficients (in the `plain-` families the actions are written without the recording call and most are the pure forwarding `$$ = $k` between possibly different fields; the tree then comes from the reference LALR(1) parser only); every token carries a distinct small value (function of its position and terminal) in its own field only; sampled sentences x five variants. Non-trivial = an accepted input whose tree contains a rule of length >= 3 using $n with n >= 2, an empty rule, and has depth >= 4; distinct by grammar text + input",
		Assumptions: []string{
			"reference: bottom-up evaluation (ref.Tree.Eval) of the abstract actions over the tree reconstructed from the C01-validated reduction sequence",
			"values stay below 2^53 so Go ints and JavaScript numbers agree",
		},
		Explanation: "the field of the returned value selected by the start symbol's tag must equal the reference attribute evaluation",
	})
	tgUnit("C07", "values", []string{"productive", "lalr", "separators", "nullable", "prec", "longrule", "longrule", "dup", "plain-lalr", "plain-separators", "plain-productive"}, 36, 500, 4, 8, 60, 30)
}
