package checks

import (
	"encoding/json"
	"fmt"

	"pgregory.net/rapid"

	"verifharness/spec"
)

func init() {
	Describe("C09", &PropInfo{
		Rule: "grammars are drawn from the families uniform/productive/nullable/separators/lalr (rapid) and, in the tiny unit, enumerated; a case is evaluated when yaccgo accepts the grammar; it is non-trivial when some state of the reference automaton is the target of >= 2 different (state, symbol) transitions (the de-duplication path) and distinct by grammar text",
		Assumptions: []string{
			"the reference canonical LR(0) construction in harness/ref (BFS over closures keyed by sorted item list) is correct",
			"the comparison is up to renaming of states; state 0 must be the start state",
			"the oracle grammar is yaccgo's own rule list G.ProductoinRules (front-end faithfulness is C10's business)",
		},
		Explanation: "in-process: G.LR0.LR0Closure (items and GoTo lists) of every accepted grammar is compared with an independently built canonical LR(0) collection: same number of states, item-set bijection, no duplicates, state 0 = closure of the augmented item, transitions exactly on the symbols after a dot and to the right targets, every goto target in range",
	})
	Register(&Unit{Prop: "C09", Name: "random",
		Shards: func(tier string) int { return map[string]int{"quick": 8, "thorough": 16}[tier] },
		Run: func(c *Ctx) {
			c.P.Rule = "random families"
			c.Rapid("lr0", c.Pick(10000, 100000), func(t *rapid.T) {
				fams := []string{"uniform", "productive", "nullable", "separators", "lalr", "uniform-small"}
				if rare(t, "heavy", c.Pick(300, 100)) {
					// large automata are expensive: about one case in 300 (quick) / 100 (thorough)
					fams = []string{"bigauto", "manysyms", "hugerule"}
				}
				gc := DrawGrammar(t, fams)
				if rapid.IntRange(0, 2).Draw(t, "rename") == 0 {
					// names must not matter, not even a user nonterminal called "start"
					spec.WithNames(t, gc.Spec)
					gc.Text = gc.Spec.Render(spec.RenderOpts{})
				}
				if msg := evalC09(c, gc); msg != "" {
					c.Fail(gc, msg)
					t.Fatalf("%s", msg)
				}
			})
		},
		Replay: func(c *Ctx, raw json.RawMessage) string {
			var gc GCase
			if m := decodeCase(raw, &gc); m != "" {
				return m
			}
			return evalC09(c, gc)
		},
	})
	Register(&Unit{Prop: "C09", Name: "tiny",
		Shards: func(tier string) int { return map[string]int{"quick": 4, "thorough": 16}[tier] },
		Run: func(c *Ctx) {
			maxRules := c.Pick(2, 3)
			n := TinyCount(maxRules)
			c.P.Rule = fmt.Sprintf("all %d grammars over 2 terminals, 2 nonterminals, <= %d rules, rhs length <= 2", n, maxRules)
			for i := c.Shard; i < n; i += c.NShards {
				s := TinyGrammar(i, maxRules)
				gc := GCase{Family: "tiny", Spec: s, Text: s.Render(spec.RenderOpts{})}
				if msg := evalC09(c, gc); msg != "" {
					c.Violate(gc, msg)
					return
				}
			}
			c.P.Exhaustive = append(c.P.Exhaustive, c.P.Rule)
		},
		Replay: func(c *Ctx, raw json.RawMessage) string {
			var gc GCase
			if m := decodeCase(raw, &gc); m != "" {
				return m
			}
			return evalC09(c, gc)
		},
	})
}

func evalC09(c *Ctx, gc GCase) string {
	c.Eval(1)
	b, ok, err := BuildText(gc.Text, false)
	if !ok {
		c.Class("rejected-by-yaccgo")
		return ""
	}
	if err != nil {
		return adaptProblem(c, err, gc.Text)
	}
	c.Class("accepted")
	g := b.A.G
	lr0, _ := g.BuildLR0(0)
	ys := b.A.States()
	y2r, msg := matchStates(g, lr0, ys)
	if msg != "" {
		return fmt.Sprintf("LR(0) automaton differs from the canonical collection: %s\n%s", msg, gc.Text)
	}
	if y2r[0] != 0 {
		return fmt.Sprintf("state 0 is not the start state (it is the canonical state %d)\n%s", y2r[0], gc.Text)
	}
	for i, st := range ys {
		rs := lr0[y2r[i]]
		if st.DupGoto {
			return fmt.Sprintf("state %d lists two transitions on the same symbol\n%s", i, gc.Text)
		}
		for x, to := range st.Goto {
			if to < 0 || to >= len(ys) {
				return fmt.Sprintf("state %d: transition on %s to non-existent state %d\n%s", i, g.Names[x], to, gc.Text)
			}
			rt, ok := rs.Goto[x]
			if !ok {
				return fmt.Sprintf("state %d has a transition on %s but no item has %s after the dot\n%s", i, g.Names[x], g.Names[x], gc.Text)
			}
			if rt != y2r[to] {
				return fmt.Sprintf("state %d on %s leads to state %d = %s; the closure of the advanced items is %s\n%s", i, g.Names[x], to, itemsString(g, ys[to].Items), itemsString(g, lr0[rt].Items), gc.Text)
			}
		}
		for x := range rs.Goto {
			if _, ok := st.Goto[x]; !ok {
				return fmt.Sprintf("state %d has an item with %s after the dot but no transition on it\n%s", i, g.Names[x], gc.Text)
			}
		}
	}
	// non-trivial: some state has in-degree >= 2
	indeg := make([]int, len(lr0))
	nt := false
	for _, st := range lr0 {
		for _, to := range st.Goto {
			indeg[to]++
			if indeg[to] >= 2 {
				nt = true
			}
		}
	}
	if nt {
		c.Nontrivial(Hash(gc.Text))
		if c.WantSample() {
			c.Sample(map[string]interface{}{"family": gc.Family, "grammar": gc.Text, "states": len(lr0)})
		}
	}
	c.Class(fmt.Sprintf("family:%s", familyRoot(gc.Family)))
	return ""
}

func familyRoot(f string) string {
	for i := 0; i < len(f); i++ {
		if f[i] == '/' {
			return f[:i]
		}
	}
	return f
}
