package checks

import (
	"context"
	"encoding/json"
	"fmt"
	"os"
	"os/exec"
	"path/filepath"
	"runtime"
	"sort"
	"strconv"
	"strings"
	"sync"
	"time"

	"verifharness/gen"
	"verifharness/yg"
)

// PropInfo carries the static text that goes into evidence files.
type PropInfo struct {
	Rule        string
	Assumptions []string
	Explanation string
}

var propInfo = map[string]*PropInfo{}

func Describe(prop string, info *PropInfo) { propInfo[prop] = info }

func usage() {
	fmt.Fprintln(os.Stderr, "usage: verifctl run <PROP> quick|thorough | unit ... | replay <file> | regress <PROP> | list")
	os.Exit(2)
}

func Main() {
	if len(os.Args) < 2 {
		usage()
	}
	switch os.Args[1] {
	case "list":
		for _, u := range registry {
			fmt.Println(u.Prop, u.Name)
		}
	case "run":
		if len(os.Args) < 4 {
			usage()
		}
		os.Exit(orchestrate(os.Args[2], os.Args[3]))
	case "unit":
		// unit PROP NAME SHARD NSHARDS TIER SEED OUTDIR
		if len(os.Args) < 9 {
			usage()
		}
		os.Exit(runUnit(os.Args[2:]))
	case "regress":
		if len(os.Args) < 4 {
			usage()
		}
		os.Exit(runRegress(os.Args[2], os.Args[3]))
	case "c13worker":
		C13WorkerMain()
	case "replay":
		if len(os.Args) < 3 {
			usage()
		}
		gen.TrimGenCache(1 << 62) // never trims: registers this process as a user of the shared build cache
		os.Exit(runReplay(os.Args[2]))
	default:
		usage()
	}
}

func seedFromEnv() int64 {
	s := os.Getenv("VERIF_SEED")
	if s == "" {
		return 1
	}
	n, err := strconv.ParseInt(s, 10, 64)
	if err != nil {
		// any string is accepted: hash it
		return int64(Hash(s) >> 1)
	}
	return n
}

func runUnit(a []string) int {
	u := FindUnit(a[0], a[1])
	if u == nil {
		fmt.Fprintln(os.Stderr, "no such unit", a[0], a[1])
		return 2
	}
	shard, _ := strconv.Atoi(a[2])
	nsh, _ := strconv.Atoi(a[3])
	base, _ := strconv.ParseInt(a[5], 10, 64)
	c := newCtx(u, a[4], base, shard, nsh, a[6])
	if os.Getenv("VERIF_HANG_DUMP") == "" {
		// the text on which an in-process yaccgo call got stuck is kept for C13's replay
		d := filepath.Join(c.Verif, "replays")
		os.MkdirAll(d, 0o755)
		os.Setenv("VERIF_HANG_DUMP", d)
	}
	func() {
		defer func() {
			if e := recover(); e != nil {
				buf := make([]byte, 1<<14)
				n := runtime.Stack(buf, false)
				c.Infra("unit panicked: %v\n%s", e, buf[:n])
			}
		}()
		u.Run(c)
	}()
	if yg.Hung() && u.Prop != "C13" {
		c.Infra("an in-process call into yaccgo did not return within %v (termination is property C13; this unit gave up; the input is kept as %s/hung-%d.y)", yg.BuildDeadline, os.Getenv("VERIF_HANG_DUMP"), os.Getpid())
	}
	c.finish()
	b, _ := json.Marshal(&c.P)
	path := filepath.Join(c.OutDir, fmt.Sprintf("%s-%s-%d.json", u.Prop, u.Name, shard))
	if err := os.WriteFile(path, b, 0o644); err != nil {
		fmt.Fprintln(os.Stderr, "cannot write partial:", err)
		return 2
	}
	return 0
}

// regress replays every committed case under regress/<prop>/ and prints one
// JSON partial.
func runRegress(prop, outdir string) int {
	verif := envOr("VERIF_DIR", "/verif")
	files, _ := filepath.Glob(filepath.Join(verif, "regress", prop, "*.json"))
	sort.Strings(files)
	var part *Ctx
	for _, f := range files {
		b, err := os.ReadFile(f)
		if err != nil {
			continue
		}
		var rf ReplayFile
		if err := json.Unmarshal(b, &rf); err != nil {
			fmt.Fprintln(os.Stderr, "bad regress file", f, err)
			return 2
		}
		u := FindUnit(rf.Property, rf.Unit)
		if u == nil || u.Replay == nil {
			fmt.Fprintln(os.Stderr, "regress file names unknown unit", f)
			return 2
		}
		c := newCtx(u, "quick", 0, 0, 1, outdir)
		if part == nil {
			part = c
			part.P.Unit = "regress"
		}
		msg := ""
		func() {
			defer func() {
				if e := recover(); e != nil {
					msg = fmt.Sprint("panic while replaying: ", e)
				}
			}()
			msg = u.Replay(c, rf.Case)
		}()
		part.P.Evaluations++
		part.P.Classes["regress-cases"]++
		if msg != "" {
			part.P.Violations = append(part.P.Violations, Violation{Message: "regression case " + filepath.Base(f) + ": " + firstLines(msg, 10), Replay: f})
		}
	}
	if part == nil {
		return 0
	}
	part.finish()
	b, _ := json.Marshal(&part.P)
	os.WriteFile(filepath.Join(outdir, prop+"-regress-0.json"), b, 0o644)
	return 0
}

func runReplay(file string) int {
	b, err := os.ReadFile(file)
	if err != nil {
		fmt.Fprintln(os.Stderr, err)
		return 2
	}
	var rf ReplayFile
	if err := json.Unmarshal(b, &rf); err != nil {
		fmt.Fprintln(os.Stderr, "bad replay file:", err)
		return 2
	}
	u := FindUnit(rf.Property, rf.Unit)
	if u == nil || u.Replay == nil {
		fmt.Fprintln(os.Stderr, "replay file names unknown unit", rf.Property, rf.Unit)
		return 2
	}
	tmp, _ := os.MkdirTemp("", "verif-replay-")
	defer os.RemoveAll(tmp)
	c := newCtx(u, "quick", 0, 0, 1, tmp)
	msg := u.Replay(c, rf.Case)
	if c.P.Infra != "" {
		fmt.Println("INFRA:", c.P.Infra)
		return 2
	}
	if msg != "" {
		fmt.Println(msg)
		abs, _ := filepath.Abs(file)
		fmt.Printf("VIOLATION property=%s replay=%s\n", rf.Property, abs)
		return 1
	}
	fmt.Printf("replay of %s: property %s held\n", file, rf.Property)
	return 0
}

type job struct {
	u     *Unit
	shard int
	n     int
}

func orchestrate(prop, tier string) int {
	start := time.Now()
	if tier != "quick" && tier != "thorough" {
		usage()
	}
	units := UnitsOf(prop)
	if len(units) == 0 {
		fmt.Fprintln(os.Stderr, "no units registered for", prop)
		return 2
	}
	base := seedFromEnv()
	verif := envOr("VERIF_DIR", "/verif")
	outdir, err := os.MkdirTemp("", "verif-"+prop+"-")
	if err != nil {
		fmt.Fprintln(os.Stderr, err)
		return 2
	}
	defer os.RemoveAll(outdir)
	self, _ := os.Executable()
	var jobs []job
	for _, u := range units {
		n := 1
		if u.Shards != nil {
			n = u.Shards(tier)
		}
		for i := 0; i < n; i++ {
			jobs = append(jobs, job{u, i, n})
		}
	}
	maxPar := runtime.NumCPU()
	if v, err := strconv.Atoi(os.Getenv("VERIF_JOBS")); err == nil && v > 0 {
		maxPar = v
	}
	var infra []string
	var mu sync.Mutex
	gen.TrimGenCache(6 << 30)
	removeStaleScratch()
	if err := gen.BuildCLI(filepath.Join(verif, "harness"), filepath.Join(outdir, "yaccgo-cli")); err != nil {
		fmt.Println("INFRASTRUCTURE PROBLEM:", err)
		return 2
	}
	// regression cases first
	{
		ctx, cancel := context.WithTimeout(context.Background(), 10*time.Minute)
		cmd := exec.CommandContext(ctx, self, "regress", prop, outdir)
		cmd.Stdout = os.Stderr
		cmd.Stderr = os.Stderr
		if err := cmd.Run(); err != nil {
			infra = append(infra, fmt.Sprintf("regress run: %v", err))
		}
		cancel()
	}
	sem := make(chan struct{}, maxPar)
	var wg sync.WaitGroup
	for _, j := range jobs {
		wg.Add(1)
		sem <- struct{}{}
		go func(j job) {
			defer wg.Done()
			defer func() { <-sem }()
			to := 20 * time.Minute
			if tier == "thorough" {
				to = 90 * time.Minute
			}
			if j.u.Timeout != nil {
				to = j.u.Timeout(tier)
			}
			ctx, cancel := context.WithTimeout(context.Background(), to)
			defer cancel()
			cmd := exec.CommandContext(ctx, self, "unit", j.u.Prop, j.u.Name, fmt.Sprint(j.shard), fmt.Sprint(j.n), tier, fmt.Sprint(base), outdir)
			logf, _ := os.Create(filepath.Join(outdir, fmt.Sprintf("%s-%s-%d.log", j.u.Prop, j.u.Name, j.shard)))
			cmd.Stdout = logf
			cmd.Stderr = logf
			err := cmd.Run()
			logf.Close()
			if err != nil {
				tail := ""
				if b, e := os.ReadFile(logf.Name()); e == nil {
					if len(b) > 3000 {
						b = b[len(b)-3000:]
					}
					tail = string(b)
				}
				mu.Lock()
				infra = append(infra, fmt.Sprintf("unit %s/%s shard %d: %v (timeout %v)\n%s", j.u.Prop, j.u.Name, j.shard, err, to, tail))
				mu.Unlock()
			}
		}(j)
	}
	wg.Wait()
	// merge
	files, _ := filepath.Glob(filepath.Join(outdir, "*.json"))
	sort.Strings(files)
	var parts []Partial
	for _, f := range files {
		b, err := os.ReadFile(f)
		if err != nil {
			continue
		}
		var p Partial
		if json.Unmarshal(b, &p) == nil {
			parts = append(parts, p)
		}
	}
	ev, viol, known, inf := merge(prop, tier, base, parts)
	infra = append(infra, inf...)
	ev["wall_s"] = time.Since(start).Seconds()
	evdir := envOr("VERIF_EVIDENCE_DIR", filepath.Join(verif, "evidence"))
	os.MkdirAll(evdir, 0o755)
	b, _ := json.MarshalIndent(ev, "", " ")
	if err := os.WriteFile(filepath.Join(evdir, prop+".json"), b, 0o644); err != nil {
		infra = append(infra, "cannot write evidence: "+err.Error())
	}
	cov := ev["coverage"].(map[string]interface{})
	fmt.Printf("%s %s seed=%d: evaluations=%v distinct_nontrivial=%v violations=%d wall=%.1fs\n", prop, tier, base, cov["evaluations"], cov["distinct_nontrivial"], len(viol), time.Since(start).Seconds())
	for _, k := range known {
		fmt.Println(k)
	}
	for _, v := range viol {
		fmt.Println("---- violation:", v.Message)
		fmt.Printf("VIOLATION property=%s replay=%s\n", prop, v.Replay)
	}
	if len(viol) > 0 {
		return 1
	}
	if len(infra) > 0 {
		for _, s := range infra {
			fmt.Println("INFRASTRUCTURE PROBLEM:", s)
		}
		return 2
	}
	return 0
}

func merge(prop, tier string, base int64, parts []Partial) (map[string]interface{}, []Violation, []string, []string) {
	evals := 0
	nt := map[uint64]bool{}
	classes := map[string]int{}
	excluded := map[string]int{}
	inconcl := map[string]int{}
	notes := map[string]string{}
	var samples []interface{}
	var viol []Violation
	var known, infra, exhaustive []string
	unitsSeen := map[string]map[string]interface{}{}
	var unitOrder []string
	rules := []string{}
	for _, p := range parts {
		evals += p.Evaluations
		for _, h := range p.Nontrivial {
			nt[h] = true
		}
		for k, v := range p.Classes {
			classes[p.Unit+":"+k] += v
		}
		for k, v := range p.Excluded {
			excluded[p.Unit+":"+k] += v
		}
		for k, v := range p.Inconclusive {
			inconcl[p.Unit+":"+k] += v
		}
		for k, v := range p.Notes {
			notes[p.Unit+":"+k] = v
		}
		us := unitsSeen[p.Unit]
		if us == nil {
			us = map[string]interface{}{"unit": p.Unit, "shards": 0, "evaluations": 0, "nontrivial": 0, "wall_s": 0.0}
			unitsSeen[p.Unit] = us
			unitOrder = append(unitOrder, p.Unit)
			for _, s := range p.Samples {
				samples = append(samples, map[string]interface{}{"unit": p.Unit, "case": s})
			}
			if p.Rule != "" {
				rules = append(rules, p.Unit+": "+p.Rule)
			}
		}
		us["shards"] = us["shards"].(int) + 1
		us["evaluations"] = us["evaluations"].(int) + p.Evaluations
		us["nontrivial"] = us["nontrivial"].(int) + len(p.Nontrivial)
		if p.Wall > us["wall_s"].(float64) {
			us["wall_s"] = p.Wall
		}
		viol = append(viol, p.Violations...)
		for _, k := range p.Known {
			dup := false
			for _, x := range known {
				dup = dup || x == k
			}
			if !dup {
				known = append(known, k)
			}
		}
		if p.Infra != "" {
			infra = append(infra, fmt.Sprintf("%s shard %d: %s", p.Unit, p.Shard, p.Infra))
		}
		for _, e := range p.Exhaustive {
			exhaustive = append(exhaustive, p.Unit+": "+e)
		}
	}
	var units []interface{}
	for _, n := range unitOrder {
		units = append(units, unitsSeen[n])
	}
	info := propInfo[prop]
	if info == nil {
		info = &PropInfo{}
	}
	rule := info.Rule
	if len(rules) > 0 {
		rule += " || per unit: " + strings.Join(rules, " | ")
	}
	if samples == nil {
		samples = []interface{}{}
	}
	cov := map[string]interface{}{
		"evaluations":         evals,
		"distinct_nontrivial": len(nt),
		"rule":                rule,
		"samples":             samples,
		"classes":             classes,
		"excluded":            excluded,
		"inconclusive":        inconcl,
		"units":               units,
		"explanation":         info.Explanation,
		"exhaustive":          false,
	}
	if len(exhaustive) > 0 {
		cov["exhaustive_subspaces"] = exhaustive
	}
	if len(notes) > 0 {
		cov["notes"] = notes
	}
	if len(known) > 0 {
		cov["known_findings_printed"] = known
	}
	ev := map[string]interface{}{
		"property_id": prop,
		"tier":        tier,
		"seed":        base,
		"level":       "exploration",
		"coverage":    cov,
		"assumptions": info.Assumptions,
		"violations":  len(viol),
		"wall_s":      0.0,
	}
	return ev, viol, known, infra
}

// removeStaleScratch deletes scratch directories that earlier runs of the
// harness left in the temp directory because they were killed (timeouts).
func removeStaleScratch() {
	m, _ := filepath.Glob(filepath.Join(os.TempDir(), "verif-*"))
	for _, d := range m {
		if fi, err := os.Stat(d); err == nil && fi.IsDir() && time.Since(fi.ModTime()) > 6*time.Hour {
			os.RemoveAll(d)
		}
	}
}
