package checks

import (
	"encoding/json"
	"fmt"
	"regexp"
	"sort"
	"strings"

	"github.com/awalterschulze/gographviz"
	"pgregory.net/rapid"

	"verifharness/ref"
	"verifharness/spec"
	"verifharness/yg"
)

func init() {
	Describe("C18", &PropInfo{
		Rule: "grammars of all families (uniform, productive, nullable, separators, lalr, prec) and renamed ones whose literals are drawn with priority from characters that are special in DOT strings and record labels (| { } < > \" and others); each accepted grammar is built once in-process with the debug listing on and DrawGrammar is called on the tables of that same run. Non-trivial = grammar with an accepting state, >= 1 empty-rule item and >= 1 reduce annotation with >= 2 lookaheads; distinct by grammar text",
		Assumptions: []string{
			"ground truth = the tables of the same run: LR0Closure (items, goto), the dense table GTable (shift/goto cells, reduce cells, accept cell) and the lookahead sets read through the verif hook",
			"DOT: the text of graph.String() must be valid DOT (it is re-parsed) and every record label is parsed with the Graphviz record grammar; item texts are compared after removing blanks",
			"listing: sets are compared as sets (their print order is a map order); the blank literal is not generated (the listing separates names by blanks)",
		},
		Explanation: "DOT: one node per state, items of the node == items of the state, edges == exactly the non-negative non-error non-accept cells with the symbol's name as label, reduce annotations == exactly the negative cells (symbol, rule number), accept fill == exactly the states with an accept cell. Listing: state headers, items with dot position, goto lines, and 'Show LookAhead SET' lines == LR0Closure and the hook's lookaheads",
	})
	replay := func(c *Ctx, raw json.RawMessage) string {
		var gc GCase
		if m := decodeCase(raw, &gc); m != "" {
			return m
		}
		return evalC18(c, gc)
	}
	Register(&Unit{Prop: "C18", Name: "diagram-listing",
		Shards: func(tier string) int { return map[string]int{"quick": 8, "thorough": 16}[tier] },
		Run: func(c *Ctx) {
			c.Rapid("draw", c.Pick(5000, 60000), func(t *rapid.T) {
				gc := DrawGrammar(t, []string{"uniform", "productive", "nullable", "separators", "lalr", "prec", "productive-small"})
				if rapid.Bool().Draw(t, "rename") {
					spec.WithNames(t, gc.Spec)
					for i := range gc.Spec.Terms {
						if gc.Spec.Terms[i].Lit == " " {
							gc.Spec.Terms[i].Lit = "~"
							for j := range gc.Spec.Terms {
								if j != i && gc.Spec.Terms[j].Lit == "~" {
									gc.Spec.Terms[j].Lit = "^"
								}
							}
						}
					}
					gc.Text = gc.Spec.Render(spec.RenderOpts{})
				}
				if msg := evalC18(c, gc); msg != "" {
					c.Fail(gc, msg)
					t.Fatalf("%s", msg)
				}
			})
		},
		Replay: replay,
	})
}

var reLALine = regexp.MustCompile(`^\d+:.*-->.* : `)

func dispName(n string) string {
	if len(n) > 9 && n[:9] == "$operator" {
		return "'" + n[9:] + "'"
	}
	return n
}

func noBlanks(s string) string {
	return strings.Join(strings.Fields(s), "")
}

// unquoteDOT resolves a double-quoted DOT string.
func unquoteDOT(s string) (string, error) {
	if len(s) < 2 || s[0] != '"' || s[len(s)-1] != '"' {
		return "", fmt.Errorf("attribute value is not a quoted string: %s", clip(s, 80))
	}
	in := s[1 : len(s)-1]
	var out []byte
	for i := 0; i < len(in); i++ {
		if in[i] == '\\' && i+1 < len(in) && in[i+1] == '"' {
			out = append(out, '"')
			i++
			continue
		}
		if in[i] == '"' {
			return "", fmt.Errorf("unescaped '\"' inside a quoted DOT string: %s", clip(s, 120))
		}
		out = append(out, in[i])
	}
	return string(out), nil
}

func evalC18(c *Ctx, gc GCase) string {
	c.Eval(1)
	res := yg.Build(gc.Text, true)
	if !res.Accepted() {
		c.Class("rejected-by-yaccgo")
		return ""
	}
	a, err := yg.NewAdapt(res.Root)
	if err != nil {
		return adaptProblem(c, err, gc.Text)
	}
	l := res.Root.LALR1
	G := l.G
	states := G.LR0.LR0Closure
	errc, accc := l.GenErrorCode(), l.GenAcceptCode()
	fail := func(format string, x ...interface{}) string {
		return fmt.Sprintf(format, x...) + "\n" + gc.Text
	}
	// ---------------- DOT
	var graph *gographviz.Graph
	var dotText string
	perr := ""
	yg.Capture(func() {
		defer func() {
			if e := recover(); e != nil {
				perr = fmt.Sprint(e)
			}
		}()
		graph = l.DrawGrammar(l.GTable)
		dotText = graph.String()
	})
	if perr != "" {
		return fail("DrawGrammar panicked: %s", perr)
	}
	if _, err := gographviz.ParseString(dotText); err != nil {
		return fail("the DOT text of the diagram is not valid DOT: %v\n%s", err, clip(dotText, 1500))
	}
	if len(graph.Nodes.Nodes) != len(states) {
		return fail("diagram has %d nodes, the automaton has %d states", len(graph.Nodes.Nodes), len(states))
	}
	expItem := func(rule, dot int) string {
		r := G.ProductoinRules[rule]
		s := r.LeftPart.Name + "->"
		if len(r.RighPart) == 0 {
			return s + "ε"
		}
		for i, sy := range r.RighPart {
			if i == dot {
				s += "•"
			}
			s += dispName(sy.Name)
		}
		if dot == len(r.RighPart) {
			s += "•"
		}
		return s
	}
	nontrivAccept, nontrivEps, nontrivMulti := false, false, false
	for q, st := range states {
		n := graph.Nodes.Lookup[fmt.Sprintf("state_%d", q)]
		if n == nil {
			return fail("diagram has no node for state %d", q)
		}
		lab, err := unquoteDOT(n.Attrs["label"])
		if err != nil {
			return fail("state %d: %v", q, err)
		}
		fields, err := ref.ParseRecordLabel(lab)
		if err != nil {
			return fail("state %d: record label does not parse (%v): %s", q, err, lab)
		}
		if len(fields) < 2 || len(fields) > 3 {
			return fail("state %d: record label has %d top-level fields (state header, items, optional reduce annotations expected): %s", q, len(fields), lab)
		}
		if noBlanks(fields[0].Text) != fmt.Sprintf("state%d", q) {
			return fail("state %d: header field reads %q", q, fields[0].Text)
		}
		if !fields[1].Group {
			return fail("state %d: items are not a record group: %s", q, lab)
		}
		var got, want []string
		for _, f := range fields[1].Sub {
			if f.Group {
				return fail("state %d: nested group among the items: %s", q, lab)
			}
			got = append(got, noBlanks(f.Text))
		}
		for _, it := range st.Items {
			want = append(want, noBlanks(expItem(it.RuleIndex, it.Dot)))
			if len(G.ProductoinRules[it.RuleIndex].RighPart) == 0 {
				nontrivEps = true
			}
		}
		sort.Strings(got)
		sort.Strings(want)
		if strings.Join(got, "\n") != strings.Join(want, "\n") {
			return fail("state %d: the diagram shows the items %q, the state has %q (label %s)", q, got, want, lab)
		}
		// reduce annotations
		var wantRed []string
		hasAccept := false
		perRule := map[int]int{}
		for sym, d := range l.GTable[q] {
			if d == accc {
				hasAccept = true
			} else if d < 0 {
				wantRed = append(wantRed, noBlanks(fmt.Sprintf("%s: reduce rule at %d", dispName(G.Symbols[sym].Name), -d)))
				perRule[-d]++
			}
		}
		for _, k := range perRule {
			if k >= 2 {
				nontrivMulti = true
			}
		}
		var gotRed []string
		if len(fields) == 3 {
			if !fields[2].Group {
				return fail("state %d: reduce annotations are not a record group: %s", q, lab)
			}
			for _, f := range fields[2].Sub {
				gotRed = append(gotRed, noBlanks(f.Text))
			}
		}
		sort.Strings(gotRed)
		sort.Strings(wantRed)
		if strings.Join(gotRed, "\n") != strings.Join(wantRed, "\n") {
			return fail("state %d: the diagram annotates the reductions %q, the table has %q (label %s)", q, gotRed, wantRed, lab)
		}
		filled := n.Attrs["style"] == "filled"
		if filled != hasAccept {
			return fail("state %d: accept cell in the table = %v, node drawn as accepting = %v", q, hasAccept, filled)
		}
		if hasAccept {
			nontrivAccept = true
		}
	}
	// edges
	type edge struct {
		from, to string
		label    string
	}
	var gotE, wantE []string
	for _, e := range graph.Edges.Edges {
		lab, err := unquoteDOT(e.Attrs["label"])
		if err != nil {
			return fail("edge %s -> %s: %v", e.Src, e.Dst, err)
		}
		// an edge label is an escString: backslash sequences other than \N \G \E \T \H \L \n \l \r stand for the character
		gotE = append(gotE, fmt.Sprintf("%s -> %s [%s]", e.Src, e.Dst, strings.TrimSpace(unescapeEdgeLabel(lab))))
	}
	for q := range states {
		for sym, d := range l.GTable[q] {
			if d != errc && d != accc && d >= 0 {
				wantE = append(wantE, fmt.Sprintf("state_%d -> state_%d [%s]", q, d, dispName(G.Symbols[sym].Name)))
			}
		}
	}
	sort.Strings(gotE)
	sort.Strings(wantE)
	if strings.Join(gotE, "\n") != strings.Join(wantE, "\n") {
		return fail("diagram edges differ from the shift/goto cells of the table:\n diagram: %q\n table:   %q", diffList(gotE, wantE), diffList(wantE, gotE))
	}
	// ---------------- listing
	if msg := checkListing(a, res.Stdout); msg != "" {
		return fail("debug listing: %s", msg)
	}
	c.Class("diagram-and-listing-checked")
	if nontrivAccept && nontrivEps && nontrivMulti {
		c.Nontrivial(Hash(gc.Text))
		if c.WantSample() {
			c.Sample(map[string]interface{}{"family": gc.Family, "grammar": gc.Text, "states": len(states), "dot_excerpt": clip(dotText, 600)})
		}
	}
	return ""
}

func unescapeEdgeLabel(s string) string {
	var out []rune
	r := []rune(s)
	for i := 0; i < len(r); i++ {
		if r[i] == '\\' && i+1 < len(r) {
			out = append(out, r[i+1])
			i++
			continue
		}
		out = append(out, r[i])
	}
	return string(out)
}

// diffList returns the elements of a that are not in b.
func diffList(a, b []string) []string {
	in := map[string]int{}
	for _, x := range b {
		in[x]++
	}
	var out []string
	for _, x := range a {
		if in[x] > 0 {
			in[x]--
		} else {
			out = append(out, x)
		}
	}
	return out
}

// checkListing compares the `yaccgo debug` state listing with the tables.
func checkListing(a *yg.Adapt, out string) string {
	l := a.L
	G := l.G
	lines := strings.Split(out, "\n")
	sec := ""
	type stateL struct {
		items []string
		gotos []string
	}
	listed := map[int]*stateL{}
	cur := -1
	inGoto := false
	var laLines []string
	for _, ln := range lines {
		switch {
		case strings.HasPrefix(ln, "=========Show State Closure"):
			sec = "states"
			continue
		case strings.HasPrefix(ln, "===========SHOW TRANS"):
			sec = "trans"
			continue
		case strings.HasPrefix(ln, "==========Show LookAhead SET"):
			sec = "la"
			continue
		case strings.HasPrefix(ln, "=========="):
			sec = "other"
			continue
		}
		switch sec {
		case "states":
			if strings.HasPrefix(ln, "--------state ") {
				var n int
				if _, err := fmt.Sscanf(ln, "--------state %d------------", &n); err != nil {
					return "unreadable state header " + ln
				}
				if listed[n] != nil {
					return fmt.Sprintf("state %d listed twice", n)
				}
				listed[n] = &stateL{}
				cur = n
				inGoto = false
				continue
			}
			if cur < 0 || strings.TrimSpace(ln) == "" {
				continue
			}
			if ln == "GOTO:" {
				inGoto = true
				continue
			}
			if inGoto {
				listed[cur].gotos = append(listed[cur].gotos, strings.Join(strings.Fields(ln), " "))
			} else {
				listed[cur].items = append(listed[cur].items, strings.Join(strings.Fields(ln), " "))
			}
		case "la":
			if strings.TrimSpace(ln) == "" {
				continue
			}
			if !reLALine.MatchString(ln) {
				sec = "other" // the section has no end marker: it ends at the first line of another shape
				continue
			}
			laLines = append(laLines, ln)
		}
	}
	states := G.LR0.LR0Closure
	if len(listed) != len(states) {
		return fmt.Sprintf("%d states listed, the automaton has %d", len(listed), len(states))
	}
	for q, st := range states {
		ls := listed[q]
		if ls == nil {
			return fmt.Sprintf("state %d is not listed", q)
		}
		var want []string
		for _, it := range st.Items {
			r := G.ProductoinRules[it.RuleIndex]
			s := r.LeftPart.Name + "-->"
			for _, sy := range r.RighPart[:it.Dot] {
				s += " " + sy.Name
			}
			s += " @"
			for _, sy := range r.RighPart[it.Dot:] {
				s += " " + sy.Name
			}
			want = append(want, strings.Join(strings.Fields(strings.Replace(s, "-->", "--> ", 1)), " "))
		}
		got := make([]string, len(ls.items))
		for i, x := range ls.items {
			got[i] = strings.Join(strings.Fields(strings.Replace(x, "-->", "--> ", 1)), " ")
		}
		sort.Strings(got)
		sort.Strings(want)
		if strings.Join(got, "\n") != strings.Join(want, "\n") {
			return fmt.Sprintf("state %d: listed items %q, the state has %q", q, got, want)
		}
		var wantG []string
		for _, g := range st.GoTo {
			wantG = append(wantG, fmt.Sprintf("at %s goto %d", g.Sym.Name, g.ItemCl))
		}
		gotG := append([]string{}, ls.gotos...)
		sort.Strings(gotG)
		sort.Strings(wantG)
		if strings.Join(gotG, "\n") != strings.Join(wantG, "\n") {
			return fmt.Sprintf("state %d: listed transitions %q, the state has %q", q, gotG, wantG)
		}
	}
	// lookahead lines: "q:lhs-->  a  b  :  x y"
	var wantLA []string
	for _, e := range l.VerifReduceLookaheads() {
		r := G.ProductoinRules[e.Rule]
		s := fmt.Sprintf("%d:%s-->", e.State, r.LeftPart.Name)
		for _, sy := range r.RighPart {
			s += " " + sy.Name
		}
		var names []string
		for _, id := range e.LookAhead {
			names = append(names, G.Symbols[id].Name)
		}
		sort.Strings(names)
		wantLA = append(wantLA, strings.Join(strings.Fields(strings.Replace(s, "-->", "--> ", 1)), " ")+" | "+strings.Join(names, " "))
	}
	var gotLA []string
	for _, ln := range laLines {
		i := strings.LastIndex(ln, " : ")
		if i < 0 {
			return "unreadable lookahead line " + ln
		}
		names := strings.Fields(ln[i+3:])
		sort.Strings(names)
		gotLA = append(gotLA, strings.Join(strings.Fields(strings.Replace(ln[:i], "-->", "--> ", 1)), " ")+" | "+strings.Join(names, " "))
	}
	sort.Strings(gotLA)
	sort.Strings(wantLA)
	if strings.Join(gotLA, "\n") != strings.Join(wantLA, "\n") {
		return fmt.Sprintf("'Show LookAhead SET' lists %q beyond the tables, and misses %q", diffList(gotLA, wantLA), diffList(wantLA, gotLA))
	}
	return ""
}
