package checks

import (
	"encoding/json"
	"fmt"
	"regexp"
	"strconv"
	"strings"

	"pgregory.net/rapid"

	"verifharness/gen"
	"verifharness/ref"
	"verifharness/spec"
)

func init() {
	Describe("C17", &PropInfo{
		Rule: "grammars from productive/prec/lalr/separators families, half of them renamed from the identifier pools and with literals drawn from all printable ASCII characters except blank and backslash; inputs = strings up to a length bound, sampled and mutated sentences (declared tokens only); the four Go variants run with IsTrace = true and stdout captured per parse; during every third parse the action of an early reduction starts a nested parser run (PushContex/ParserInit/Parser/PopContex, or a second context with -o) whose own trace is bracketed and skipped; six inputs per grammar are parsed once more with IsTrace switched on by an action at an early reduction, and what is printed from then on must be the tail of the full trace. Non-trivial = a trace with >= 3 reductions one of which is an empty-rule reduction; distinct by grammar text + input",
		Assumptions: []string{
			"line formats are those of README.md: 'Shift <symbol>, push state <n>' and 'look ahead <token>, use Reduce:<lhs> -> <rhs> , go to state <n>'; rule texts are compared token by token after collapsing runs of blanks",
			"undeclared token codes are not fed here (they have no name the trace could print)",
			"printed state numbers are compared up to a bijection with the reference LR(0) item sets, consistent over all traces of one generated parser",
		},
		Explanation: "(1) the i-th reduce line carries exactly the text of the i-th rule recorded by the actions; (2) shifted terminals are the consumed input in order and every reduce line's lookahead is the next unconsumed token or $; (3) 'go to state n' is followed by 'Shift <lhs>, push state n'; (4) replaying the printed symbols on the reference LR(0) automaton is legal (transition exists, reduced rule is a complete item of the top state, lookahead is in the reference LALR(1) set) and induces a consistent printed-state <-> item-set bijection",
	})
	props := map[string]bool{"C17": true}
	Register(&Unit{Prop: "C17", Name: "trace",
		Shards: func(tier string) int { return map[string]int{"quick": 4, "thorough": 8}[tier] },
		Run: func(c *Ctx) {
			n := c.Pick(24, 400)
			g := rapid.Custom(drawC17)
			batch := 24
			for done := 0; done < n; done += batch {
				var cases []*TGCase
				for i := 0; i < batch && done+i < n; i++ {
					cases = append(cases, g.Example(int(c.SubSeed("case", done+i)>>1)))
				}
				if runC17(c, cases, props) {
					return
				}
			}
		},
		Replay: func(c *Ctx, raw json.RawMessage) string {
			var cs TGCase
			if m := decodeCase(raw, &cs); m != "" {
				return m
			}
			c17Msg = ""
			runC17(c, []*TGCase{&cs}, props)
			return c17Msg
		},
	})
}

var c17Msg string

func drawC17(t *rapid.T) *TGCase {
	cs := drawTG(t, []string{"productive", "prec", "lalr", "separators", "nullable"}, 60, 10)
	if rapid.Bool().Draw(t, "names") {
		spec.WithNames(t, cs.Spec)
		// no blank literal: rule texts are compared blank-separated
		for i := range cs.Spec.Terms {
			if cs.Spec.Terms[i].Lit == " " {
				cs.Spec.Terms[i].Lit = "~"
				for j := range cs.Spec.Terms {
					if j != i && cs.Spec.Terms[j].Lit == "~" {
						cs.Spec.Terms[j].Lit = "^"
					}
				}
			}
		}
		cs.Text = cs.Spec.Render(spec.RenderOpts{})
	}
	// declared tokens only
	var ins [][]int
	for _, in := range cs.Inputs {
		ok := true
		for _, x := range in {
			if x >= len(cs.Spec.Terms) {
				ok = false
			}
		}
		if ok {
			ins = append(ins, in)
		}
	}
	cs.Inputs = ins
	cs.Variants = []string{"go", "go-u", "go-o", "go-ou"}
	cs.NestEvery = 3
	cs.TraceLate = 6
	return cs
}

var (
	reShift  = regexp.MustCompile(`^Shift (.*), push state (-?\d+)$`)
	reReduce = regexp.MustCompile(`^look ahead (.*?), use Reduce:(.*), go to state (-?\d+)$`)
)

func traceName(s *spec.Spec, x int) string {
	if x < len(s.Terms) && s.Terms[x].IsLit() {
		return "'" + s.Terms[x].Lit + "'"
	}
	return s.SymYName(x)
}

func runC17(c *Ctx, cases []*TGCase, props map[string]bool) bool {
	res, cleanup := runTG(c, cases, true)
	defer cleanup()
	if res == nil {
		return true
	}
	for i, cs := range cases {
		vr := res[fmt.Sprintf("g%d", i)]
		if msg, in := evalC17(c, cs, vr); msg != "" {
			small := *cs
			if in != nil {
				small.Inputs = [][]int{in}
			}
			full := msg + "\ngrammar:\n" + cs.Text
			c17Msg = full
			c.Violate(&small, full)
			return true
		}
	}
	return false
}

func evalC17(c *Ctx, cs *TGCase, vr map[string]*gen.VRes) (string, []int) {
	s := cs.Spec
	rf := refFacts(s)
	if !rf.accepted {
		c.Class("rejected-by-yaccgo")
		return "", nil
	}
	g := rf.g
	lr0, ok := g.BuildLR0(3000)
	if !ok {
		return "", nil
	}
	var la []map[int]ref.TSet
	if rf.lr1ok {
		la, _, _ = g.LALRLookaheads(lr0, lr1Cap)
	}
	for _, v := range variantsByName(cs.Variants) {
		r := vr[v.Name]
		if r == nil || r.Gen.Failed() || !r.Built {
			c.Exclude("variant not generated/built (C12/C16's business)")
			return "", nil
		}
		if r.TimedOut {
			c.Inconclusive("driver timed out")
			return "", nil
		}
		toRef := map[int]int{}   // printed state -> reference state
		fromRef := map[int]int{} // reference state -> printed state
		bind := func(printed, refst int) string {
			if p, ok := toRef[printed]; ok && p != refst {
				return fmt.Sprintf("printed state %d stands for two different item sets: %s and %s", printed, itemsString(g, lr0[p].Items), itemsString(g, lr0[refst].Items))
			}
			if p, ok := fromRef[refst]; ok && p != printed {
				return fmt.Sprintf("item set %s is printed as state %d and as state %d", itemsString(g, lr0[refst].Items), p, printed)
			}
			toRef[printed] = refst
			fromRef[refst] = printed
			return ""
		}
		for i, in := range cs.Inputs {
			pr, err := r.ParseRes(i)
			if err != nil {
				c.Infra("variant %s input %d: %v", v.Name, i, err)
				return "", nil
			}
			c.Eval(1)
			if pr.Verdict == "loop" {
				c.Exclude("parse ended in a reduction loop (C06's business)")
				continue
			}
			// a parse that ends in a crash is C06's business, but what it printed
			// before must still be a legal run
			abnormal := pr.Verdict == "crash" || pr.Verdict == "nilreturn"
			bad := func(format string, a ...interface{}) (string, []int) {
				return fmt.Sprintf("variant %s, input %s: ", v.Name, inputNames(s, in)) + fmt.Sprintf(format, a...) + "\ntrace output:\n" + clip(pr.Out, 1500), in
			}
			lines := strings.Split(strings.TrimRight(pr.Out, "\n"), "\n")
			if pr.Out == "" {
				lines = nil
			}
			stack := []int{0}
			pos := 0 // tokens shifted
			nred := 0
			pendingGoto := -1
			pendingLHS := -1
			sawEps := false
			inNest := false
			for li, line := range lines {
				if line == "@@NEST-BEGIN" {
					inNest = true
					continue
				}
				if line == "@@NEST-END" {
					inNest = false
					continue
				}
				if inNest {
					continue // trace of the nested run (its own parse), not part of this run
				}
				if m := reReduce.FindStringSubmatch(line); m != nil {
					if pendingGoto >= 0 {
						return bad("line %d: a reduction is printed before the goto of the previous one was pushed", li+1)
					}
					if nred >= len(pr.Trace) {
						return bad("line %d: the trace prints a reduction that was not executed (executed: %v)", li+1, pr.Trace)
					}
					rule := pr.Trace[nred]
					nred++
					if rule <= 0 || rule >= len(g.Rules) {
						return bad("executed rule number %d out of range", rule)
					}
					sr := s.Rules[rule-1]
					want := []string{s.NTs[sr.LHS].Name, "->"}
					for _, x := range sr.RHS {
						want = append(want, traceName(s, x))
					}
					got := strings.Fields(m[2])
					if strings.Join(got, " ") != strings.Join(want, " ") {
						return bad("line %d prints the rule %q but the reduction executed there is rule %d: %q", li+1, strings.Join(got, " "), rule, strings.Join(want, " "))
					}
					// lookahead = next unconsumed token or $
					wantLA := "$"
					laSym := g.NT
					if pos < len(in) {
						wantLA = traceName(s, in[pos])
						laSym = in[pos]
					}
					if strings.TrimSpace(m[1]) != wantLA {
						return bad("line %d: lookahead printed as %q, the next unconsumed token is %q", li+1, strings.TrimSpace(m[1]), wantLA)
					}
					// legality on the reference automaton
					top := stack[len(stack)-1]
					complete := false
					for _, it := range lr0[top].Items {
						if it.R == rule && it.D == len(g.Rules[rule].RHS) {
							complete = true
						}
					}
					if !complete {
						return bad("line %d: rule %d is reduced in a state where it is not a complete item (%s)", li+1, rule, itemsString(g, lr0[top].Items))
					}
					if la != nil && !la[top][rule].Has(laSym) {
						return bad("line %d: rule %d is reduced on lookahead %s, which is not in its LALR(1) lookahead set %s", li+1, rule, wantLA, g.SetNames(la[top][rule]))
					}
					n := len(sr.RHS)
					if n == 0 {
						sawEps = true
					}
					if len(stack)-n < 1 {
						return bad("line %d: stack underflow in the printed run", li+1)
					}
					stack = stack[:len(stack)-n]
					pendingGoto, _ = strconv.Atoi(m[3])
					pendingLHS = g.NT + sr.LHS
					continue
				}
				if m := reShift.FindStringSubmatch(line); m != nil {
					name := strings.TrimSpace(m[1])
					st, _ := strconv.Atoi(m[2])
					top := stack[len(stack)-1]
					var sym int
					if pendingGoto >= 0 {
						sym = pendingLHS
						if name != g.Names[sym] && name != s.SymYName(sym) {
							return bad("line %d: after a reduction to %s the trace pushes %q", li+1, s.SymYName(sym), name)
						}
						if st != pendingGoto {
							return bad("line %d: 'go to state %d' is followed by a push of state %d", li+1, pendingGoto, st)
						}
						pendingGoto = -1
					} else {
						if pos >= len(in) {
							return bad("line %d: a shift of %q is printed after the whole input was consumed", li+1, name)
						}
						sym = in[pos]
						if name != traceName(s, sym) {
							return bad("line %d: the trace shifts %q but token %d of the input is %q", li+1, name, pos, traceName(s, sym))
						}
						pos++
					}
					to, ok := lr0[top].Goto[sym]
					if !ok {
						return bad("line %d: no transition on %s from the state the printed run is in (%s)", li+1, s.SymYName(sym), itemsString(g, lr0[top].Items))
					}
					if e := bind(st, to); e != "" {
						return bad("line %d: %s", li+1, e)
					}
					stack = append(stack, to)
					continue
				}
				return bad("line %d is neither a shift nor a reduce line: %q", li+1, line)
			}
			if abnormal {
				c.Class("trace-prefix-of-abnormal-run-checked")
				continue
			}
			if pendingGoto >= 0 {
				return bad("the trace ends after a reduce line without the push of its goto state")
			}
			if nred != len(pr.Trace) {
				return bad("%d reductions were executed (%v) but the trace prints %d", len(pr.Trace), pr.Trace, nred)
			}
			if pr.Verdict == "accept" && pos != len(in) {
				return bad("input accepted but the trace shows only %d of %d tokens shifted", pos, len(in))
			}
			// the number of shifted tokens must match what the lexer handed out
			if pr.Fetched > 0 && pos != pr.Fetched-1 {
				return bad("%d tokens were requested from the lexer, so %d were shifted, but the trace prints %d shifts", pr.Fetched, pr.Fetched-1, pos)
			}
			if nred >= 3 && sawEps {
				c.Nontrivial(Hash(cs.Text, fmt.Sprint(in)))
				if c.WantSample() {
					c.Sample(map[string]interface{}{"grammar": cs.Text, "variant": v.Name, "input": inputNames(s, in), "trace": clip(pr.Out, 1200)})
				}
			}
		}
		// tracing switched on in the middle of a parse (by an action, at an early
		// reduction): what is printed from then on must be exactly the tail of the
		// trace of the same parse with tracing on from the start
		for k := 0; k < cs.TraceLate && k < len(cs.Inputs); k++ {
			full, err1 := r.ParseRes(k)
			late, err2 := r.ParseRes(len(cs.Inputs) + k)
			if err1 != nil || err2 != nil {
				break
			}
			if cs.NestEvery > 0 && k%cs.NestEvery == cs.NestEvery-1 {
				continue // the full trace of this input contains a nested run
			}
			c.Eval(1)
			if late.Out != "" && !strings.HasSuffix(full.Out, late.Out) {
				return fmt.Sprintf("variant %s, input %s: with IsTrace switched on at reduction %d the parser prints\n%s\nwhich is not the tail of the trace printed with IsTrace on from the start:\n%s", v.Name, inputNames(s, cs.Inputs[k]), 1+k%3, clip(late.Out, 600), clip(full.Out, 900)), cs.Inputs[k]
			}
			if late.Out != "" {
				c.Class("late-trace-is-tail-of-full-trace:" + v.Name)
			}
		}
		c.Class("traces-checked:" + v.Name)
	}
	return "", nil
}
