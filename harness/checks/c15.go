package checks

import (
	"encoding/json"
	"fmt"
	"os"
	"reflect"

	"pgregory.net/rapid"

	"verifharness/gen"
	"verifharness/spec"
)

func init() {
	Describe("C15", &PropInfo{
		Rule: "per grammar (tier-G families, random actions) a set of 8-14 distinct inputs (sentences incl. long, deeply nested ones, and non-sentences failing at various depths) and (history) a rapid-drawn sequence of 10-30 operations: re-init + parse on the single global parser (go, go -u, typescript) or, in the -o builds, parse on one of several contexts after ParserInit() or on a fresh MakeParserContext(), extra inits in between; (interleave, -o builds) 2-4 parses on distinct contexts whose token-by-token interleaving is a rapid-drawn schedule executed by the harness (each parse runs in its own goroutine and blocks in GetToken until the schedule lets it fetch its next token); (nested, Go variants) the action of the k-th reduction of one parse starts a whole other parse - on the global parser bracketed by PushContex()/PopContex() with ParserInit() in between, in -o builds on a fresh context - and both must behave as if alone; (race) 8 contexts truly concurrent in a `go build -race` binary. Model: the result (verdict, reductions, value, tokens requested) of the same parse alone in a fresh process. Non-trivial = a history in which a rejected parse is followed by an accepted parse with more reductions, or an interleaving with >= 2 context switches inside each of two parses; distinct by grammar text + operation list",
		Assumptions: []string{
			"every parse on a re-used parser/context is preceded by ParserInit()/initialize(), as the property requires",
			"interleavings are owned by the harness at token granularity (deterministic, replayable); only the race unit depends on the OS scheduler: a data race it reports is real, its silence is weak evidence",
		},
		Explanation: "stateful / model-based: after every step of a generated history the observed result must equal the model's answer for that input; the whole operation list is the case and shrinks by dropping operations",
	})
	Register(&Unit{Prop: "C15", Name: "history",
		Shards: func(tier string) int { return map[string]int{"quick": 4, "thorough": 8}[tier] },
		Run: func(c *Ctx) {
			n := c.Pick(24, 400)
			g := rapid.Custom(drawC15)
			batch := 12
			for done := 0; done < n; done += batch {
				var cases []*C15Case
				for i := 0; i < batch && done+i < n; i++ {
					cases = append(cases, g.Example(int(c.SubSeed("case", done+i)>>1)))
				}
				if runC15(c, cases, done == 0 && c.Shard == 0) {
					return
				}
			}
		},
		Replay: func(c *Ctx, raw json.RawMessage) string {
			var cs C15Case
			if m := decodeCase(raw, &cs); m != "" {
				return m
			}
			c15Msg = ""
			runC15(c, []*C15Case{&cs}, cs.Race)
			return c15Msg
		},
	})
}

var c15Msg string

type HOp struct {
	Kind string `json:"kind"` // parse | init | fresh
	Ctx  int    `json:"ctx"`
	In   int    `json:"in"` // index into Inputs
}

type InterOp struct {
	Ctxs     []int `json:"ctxs"`
	Ins      []int `json:"ins"`
	Schedule []int `json:"schedule"`
}

// NestOp: while parsing Inputs[Out], the action of the At-th reduction starts a
// whole parse of Inputs[In] (global parser: PushContex/ParserInit/Parser/
// PopContex; -o: on a fresh context).
type NestOp struct {
	Out int `json:"outer"`
	At  int `json:"at_reduction"`
	In  int `json:"inner"`
}

type C15Case struct {
	Spec    *spec.Spec `json:"spec"`
	Inputs  [][]int    `json:"inputs"`
	History []HOp      `json:"history"`
	Inter   []InterOp  `json:"interleavings"`
	Nested  []NestOp   `json:"nested,omitempty"`
	Race    bool       `json:"race,omitempty"`
	Text    string     `json:"grammar_text"`
}

func drawC15(t *rapid.T) *C15Case {
	tg := drawTG(t, []string{"lalr", "separators", "productive", "prec", "nullable"}, 12, 14)
	cs := &C15Case{Spec: tg.Spec, Text: tg.Text}
	// keep 8-14 inputs, prefer long ones and failing ones
	ins := tg.Inputs
	perm := rapid.Permutation(seq(len(ins))).Draw(t, "inperm")
	want := rapid.IntRange(8, 14).Draw(t, "nin")
	// longest first for half of the slots
	long := append([][]int{}, ins...)
	for i := 0; i < len(long); i++ {
		for j := i + 1; j < len(long); j++ {
			if len(long[j]) > len(long[i]) {
				long[i], long[j] = long[j], long[i]
			}
		}
	}
	seen := map[string]bool{}
	add := func(w []int) {
		k := fmt.Sprint(w)
		if !seen[k] && len(cs.Inputs) < want {
			seen[k] = true
			cs.Inputs = append(cs.Inputs, w)
		}
	}
	for i := 0; i < len(long) && i < want/2; i++ {
		add(long[i])
	}
	for _, p := range perm {
		add(ins[p])
	}
	if len(cs.Inputs) == 0 {
		cs.Inputs = [][]int{{}}
	}
	ni := len(cs.Inputs)
	nops := rapid.IntRange(10, 30).Draw(t, "nops")
	for i := 0; i < nops; i++ {
		k := rapid.IntRange(0, 9).Draw(t, "opkind")
		ctx := rapid.IntRange(0, 3).Draw(t, "ctx")
		switch {
		case k == 0:
			cs.History = append(cs.History, HOp{Kind: "init", Ctx: ctx})
		case k == 1:
			cs.History = append(cs.History, HOp{Kind: "fresh", Ctx: ctx})
		default:
			cs.History = append(cs.History, HOp{Kind: "parse", Ctx: ctx, In: rapid.IntRange(0, ni-1).Draw(t, "in")})
		}
	}
	nint := rapid.IntRange(1, 3).Draw(t, "ninter")
	for i := 0; i < nint; i++ {
		np := rapid.IntRange(2, 4).Draw(t, "np")
		io := InterOp{}
		for p := 0; p < np; p++ {
			io.Ctxs = append(io.Ctxs, 10+p)
			io.Ins = append(io.Ins, rapid.IntRange(0, ni-1).Draw(t, "iin"))
		}
		ns := rapid.IntRange(0, 40).Draw(t, "nsched")
		for k := 0; k < ns; k++ {
			io.Schedule = append(io.Schedule, rapid.IntRange(0, np-1).Draw(t, "sched"))
		}
		cs.Inter = append(cs.Inter, io)
	}
	nn := rapid.IntRange(2, 6).Draw(t, "nnest")
	for i := 0; i < nn; i++ {
		cs.Nested = append(cs.Nested, NestOp{Out: rapid.IntRange(0, ni-1).Draw(t, "nout"), At: rapid.IntRange(1, 12).Draw(t, "nat"), In: rapid.IntRange(0, ni-1).Draw(t, "nin")})
	}
	return cs
}

func c15NestOps(cs *C15Case) []gen.Op {
	var ops []gen.Op
	for _, n := range cs.Nested {
		ops = append(ops, gen.Op{Op: "parse", Init: true, Ctx: 0, In: cs.Inputs[n.Out], NestAt: n.At, NestIn: cs.Inputs[n.In]})
	}
	return ops
}

func c15Ops(cs *C15Case, v gen.Variant) (runs [][]gen.Op, histRun int, interRun int) {
	for _, in := range cs.Inputs {
		runs = append(runs, []gen.Op{{Op: "parse", Init: true, Ctx: 0, In: in}})
	}
	var h []gen.Op
	for _, op := range cs.History {
		switch op.Kind {
		case "parse":
			h = append(h, gen.Op{Op: "parse", Init: true, Ctx: op.Ctx, In: cs.Inputs[op.In]})
		case "init":
			h = append(h, gen.Op{Op: "init", Ctx: op.Ctx})
		case "fresh":
			h = append(h, gen.Op{Op: "fresh", Ctx: op.Ctx})
		}
	}
	histRun = len(runs)
	runs = append(runs, h)
	interRun = -1
	if v.Object() && len(cs.Inter) > 0 {
		var ops []gen.Op
		for _, io := range cs.Inter {
			o := gen.Op{Op: "interleave", Schedule: io.Schedule}
			for k := range io.Ctxs {
				o.Parses = append(o.Parses, gen.Op{Op: "parse", Ctx: io.Ctxs[k], In: cs.Inputs[io.Ins[k]]})
			}
			ops = append(ops, o)
		}
		interRun = len(runs)
		runs = append(runs, ops)
	}
	if v.IsGo() && len(cs.Nested) > 0 {
		// always the last run
		runs = append(runs, c15NestOps(cs))
	}
	return
}

func sameRes(a, b *gen.Res, withTrace bool) string {
	if a.Verdict != b.Verdict {
		return fmt.Sprintf("verdict %s (%s), alone in a fresh process: %s (%s)", a.Verdict, clip(a.Msg, 100), b.Verdict, clip(b.Msg, 100))
	}
	if withTrace && !reflect.DeepEqual(normTrace(a.Trace), normTrace(b.Trace)) {
		return fmt.Sprintf("reductions %v, alone in a fresh process: %v", a.Trace, b.Trace)
	}
	if a.Verdict == "accept" && !reflect.DeepEqual(a.Val, b.Val) {
		return fmt.Sprintf("value %v, alone in a fresh process: %v", a.Val, b.Val)
	}
	if a.Fetched != b.Fetched {
		return fmt.Sprintf("%d tokens requested, alone in a fresh process: %d", a.Fetched, b.Fetched)
	}
	return ""
}

func runC15(c *Ctx, cases []*C15Case, withRace bool) bool {
	dir, err := os.MkdirTemp(c.OutDir, "c15-")
	if err != nil {
		c.Infra("mkdtemp: %v", err)
		return true
	}
	defer os.RemoveAll(dir)
	variants := gen.AllVariants
	var jobs []*gen.Job
	for i, cs := range cases {
		for _, v := range variants {
			runs, _, _ := c15Ops(cs, v)
			jobs = append(jobs, &gen.Job{ID: fmt.Sprintf("g%d%s", i, map[bool]string{true: "o", false: "p"}[v.Object()]+fmt.Sprint(len(v.Opts))), Spec: cs.Spec, Variants: []gen.Variant{v}, Runs: runs})
		}
		if withRace && i < 3 {
			// 8 contexts concurrently, race detector on
			o := gen.Op{Op: "parallel"}
			for k := 0; k < 8; k++ {
				o.Parses = append(o.Parses, gen.Op{Op: "parse", Ctx: 20 + k, In: cs.Inputs[k%len(cs.Inputs)]})
			}
			jobs = append(jobs, &gen.Job{ID: fmt.Sprintf("r%d", i), Spec: cs.Spec, Variants: []gen.Variant{gen.VGoO}, Runs: [][]gen.Op{{o}, {o}}, Race: true, RunTimeout: 0})
		}
	}
	env := c.GenEnv()
	if c.P.Infra != "" {
		return true
	}
	res, err := gen.RunBatch(env, dir, jobs)
	if err != nil {
		c.Infra("batch: %v", err)
		return true
	}
	for i, cs := range cases {
		fail := func(format string, a ...interface{}) bool {
			msg := fmt.Sprintf(format, a...) + "\ngrammar:\n" + cs.Text
			c15Msg = msg
			c.Violate(cs, msg)
			return true
		}
		models := map[string][]*gen.Res{}
		for _, v := range variants {
			id := fmt.Sprintf("g%d%s", i, map[bool]string{true: "o", false: "p"}[v.Object()]+fmt.Sprint(len(v.Opts)))
			r := res[id][v.Name]
			if r == nil || r.Gen.Failed() {
				c.Class("rejected-by-yaccgo")
				break
			}
			if !r.Built {
				c.Exclude("generated file does not build (C16's business)")
				break
			}
			if r.TimedOut {
				c.Inconclusive("driver timed out")
				break
			}
			runs, histRun, interRun := c15Ops(cs, v)
			_ = runs
			// models
			var model []*gen.Res
			okModel := true
			for k := range cs.Inputs {
				if k >= len(r.RunLines) || len(r.RunLines[k]) < 1 {
					okModel = false
					break
				}
				var m gen.Res
				if json.Unmarshal(r.RunLines[k][0], &m) != nil {
					okModel = false
					break
				}
				model = append(model, &m)
			}
			if !okModel {
				c.Infra("variant %s: model runs incomplete: %s", v.Name, clip(r.RunErr+r.Stderr, 300))
				return true
			}
			models[v.Name] = model
			// history
			hl := r.RunLines[histRun]
			if len(hl) != len(cs.History) {
				c.Infra("variant %s: history run printed %d lines for %d ops: %s", v.Name, len(hl), len(cs.History), clip(r.RunErr+r.Stderr, 300))
				return true
			}
			lastRejectReds := -1
			nontriv := false
			for k, op := range cs.History {
				c.Eval(1)
				if op.Kind != "parse" {
					continue
				}
				var got gen.Res
				if err := json.Unmarshal(hl[k], &got); err != nil {
					c.Infra("variant %s: unreadable result line %s", v.Name, clip(string(hl[k]), 200))
					return true
				}
				if d := sameRes(&got, model[op.In], true); d != "" {
					return fail("variant %s: operation %d of the history (parse %s on %s after re-initialisation) differs from the same parse alone: %s\nhistory: %s",
						v.Name, k, inputNames(cs.Spec, cs.Inputs[op.In]), ctxName(v, op.Ctx), d, historyString(cs, k))
				}
				if got.Verdict != "accept" {
					lastRejectReds = len(got.Trace)
				} else if lastRejectReds >= 0 && len(got.Trace) > lastRejectReds {
					nontriv = true
				}
			}
			if nontriv {
				c.Nontrivial(Hash(cs.Text, fmt.Sprint(cs.History), v.Name))
			}
			c.Class("history-ok:" + v.Name)
			// interleavings
			if interRun >= 0 {
				il := r.RunLines[interRun]
				if len(il) != len(cs.Inter) {
					c.Infra("variant %s: interleave run printed %d lines for %d ops: %s", v.Name, len(il), len(cs.Inter), clip(r.RunErr+r.Stderr, 300))
					return true
				}
				for k, io := range cs.Inter {
					var out struct {
						Interleave []gen.Res `json:"interleave"`
					}
					if err := json.Unmarshal(il[k], &out); err != nil || len(out.Interleave) != len(io.Ctxs) {
						c.Infra("variant %s: unreadable interleave result %s", v.Name, clip(string(il[k]), 200))
						return true
					}
					for p := range io.Ctxs {
						c.Eval(1)
						if d := sameRes(&out.Interleave[p], model[io.Ins[p]], true); d != "" {
							return fail("variant %s: parse %d (%s) of an interleaving of %d contexts with schedule %v differs from the same parse alone: %s",
								v.Name, p, inputNames(cs.Spec, cs.Inputs[io.Ins[p]]), len(io.Ctxs), io.Schedule, d)
						}
					}
					if interleaveSwitches(io, cs) >= 2 {
						c.Nontrivial(Hash(cs.Text, fmt.Sprint(io), v.Name))
					}
				}
				c.Class("interleavings-ok:" + v.Name)
			}
			// nested runs
			if v.IsGo() && len(cs.Nested) > 0 {
				nl := r.RunLines[len(r.RunLines)-1]
				if len(nl) != len(cs.Nested) {
					c.Infra("variant %s: nested run printed %d lines for %d ops: %s", v.Name, len(nl), len(cs.Nested), clip(r.RunErr+r.Stderr, 300))
					return true
				}
				for k, n := range cs.Nested {
					var got gen.Res
					if err := json.Unmarshal(nl[k], &got); err != nil {
						c.Infra("variant %s: unreadable result line %s", v.Name, clip(string(nl[k]), 200))
						return true
					}
					c.Eval(1)
					how := "PushContex(); ParserInit(); Parser(inner); PopContex()"
					if v.Object() {
						how = "MakeParserContext().Parser(inner)"
					}
					if d := sameRes(&got, model[n.Out], true); d != "" {
						return fail("variant %s: parse of %s during which the action of reduction %d runs a nested parse of %s (%s) differs from the same parse alone: %s",
							v.Name, inputNames(cs.Spec, cs.Inputs[n.Out]), n.At, inputNames(cs.Spec, cs.Inputs[n.In]), how, d)
					}
					if got.Nested != nil {
						if d := sameRes(got.Nested, model[n.In], true); d != "" {
							return fail("variant %s: nested parse of %s (%s), started by the action of reduction %d of the parse of %s, differs from the same parse alone: %s",
								v.Name, inputNames(cs.Spec, cs.Inputs[n.In]), how, n.At, inputNames(cs.Spec, cs.Inputs[n.Out]), d)
						}
						c.Nontrivial(Hash(cs.Text, fmt.Sprint(n), v.Name, "nested"))
						c.Class("nested-run-ok:" + v.Name)
					}
				}
			}
		}
		// race run
		if rr := res[fmt.Sprintf("r%d", i)]; rr != nil {
			r := rr["go-o"]
			model := models["go-o"]
			if r != nil && r.Built && model != nil {
				if r.RaceOut != "" {
					return fail("go -o parsers on 8 distinct contexts running concurrently: the race detector reports\n%s", r.RaceOut)
				}
				for _, lines := range r.RunLines {
					if len(lines) < 1 {
						continue
					}
					var out struct {
						Parallel []gen.Res `json:"parallel"`
					}
					if json.Unmarshal(lines[0], &out) != nil {
						continue
					}
					for p := range out.Parallel {
						c.Eval(1)
						if d := sameRes(&out.Parallel[p], model[p%len(cs.Inputs)], false); d != "" {
							return fail("go -o: parse %d of 8 concurrent contexts differs from the same parse alone: %s", p, d)
						}
					}
				}
				c.Class("race-run-ok")
			} else if r != nil && !r.Built {
				c.Inconclusive("race build failed: " + clip(r.BuildErr, 200))
			}
		}
		if c.WantSample() {
			c.Sample(map[string]interface{}{"grammar": cs.Text, "inputs": len(cs.Inputs), "history": historyString(cs, -1), "interleavings": cs.Inter})
		}
	}
	return false
}

func ctxName(v gen.Variant, ctx int) string {
	if v.Object() {
		return fmt.Sprintf("context %d", ctx)
	}
	return "the global parser"
}

func historyString(cs *C15Case, upto int) string {
	s := ""
	for k, op := range cs.History {
		if upto >= 0 && k > upto {
			break
		}
		switch op.Kind {
		case "parse":
			s += fmt.Sprintf("parse(ctx %d, %s); ", op.Ctx, inputNames(cs.Spec, cs.Inputs[op.In]))
		default:
			s += fmt.Sprintf("%s(ctx %d); ", op.Kind, op.Ctx)
		}
	}
	return s
}

// interleaveSwitches: the smallest number of context switches inside any two parses.
func interleaveSwitches(io InterOp, cs *C15Case) int {
	sw := make([]int, len(io.Ctxs))
	last := -1
	steps := make([]int, len(io.Ctxs))
	for _, s := range io.Schedule {
		if s >= len(io.Ctxs) {
			continue
		}
		if steps[s] > len(cs.Inputs[io.Ins[s]]) {
			continue // that parse is finished
		}
		steps[s]++
		if last != -1 && last != s {
			sw[s]++
		}
		last = s
	}
	// second largest
	a, b := 0, 0
	for _, x := range sw {
		if x > a {
			a, b = x, a
		} else if x > b {
			b = x
		}
	}
	return b
}
