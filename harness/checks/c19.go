package checks

import (
	"bytes"
	"encoding/json"
	"fmt"
	"os"
	"path/filepath"
	"strings"
	"time"

	"pgregory.net/rapid"

	"verifharness/gen"
	"verifharness/spec"
)

func init() {
	Describe("C19", &PropInfo{
		Rule: "a well-formed grammar (spec with tags and actions using $$/$n) is damaged by one fault from a catalogue that covers every input-caused failure the code can raise - lexical error, unbalanced brace or comment, missing ':' / '%%', undefined symbol, unproductive nonterminal, %type for a symbol without rule, $n beyond the rule length, $0, a rule long enough for > 2000 states - or by a random edit script, or left intact; the CLI runs for go, go -u, go -o and typescript with the output path holding random bytes. Non-trivial = a failing run whose failure is raised after parsing (table construction or code-fragment construction: unproductive, %type without rule, $n out of range, too many states); distinct by grammar text + variant",
		Assumptions: []string{
			"failure = non-zero exit status of `yaccgo generate`; the oracle is conditional on the observed exit status, so every fault (whatever yaccgo makes of it) is a sound case",
			"success: the file must end with the epilogue text and must no longer contain the old bytes",
		},
		Explanation: "fault injection x pre-existing file: bytes of the file after a failing run must equal the bytes before; after a successful run the file is complete",
	})
	Register(&Unit{Prop: "C19", Name: "faults",
		Shards: func(tier string) int { return map[string]int{"quick": 8, "thorough": 16}[tier] },
		Run: func(c *Ctx) {
			c.P.Rule = "fault catalogue + random edits"
			c.Rapid("faults", c.Pick(150, 4000), func(t *rapid.T) {
				cs := drawC19(t)
				if msg := evalC19(c, cs); msg != "" {
					c.Fail(cs, msg)
					t.Fatalf("%s", msg)
				}
			})
		},
		Replay: func(c *Ctx, raw json.RawMessage) string {
			var cs C19Case
			if m := decodeCase(raw, &cs); m != "" {
				return m
			}
			return evalC19(c, cs)
		},
	})
}

type C19Case struct {
	Fault    string `json:"fault"`
	Text     string `json:"text"`
	Epilogue string `json:"epilogue"`
	Old      []byte `json:"old_file_bytes"`
}

func drawC19(t *rapid.T) C19Case {
	s := spec.Productive(t, smallCfg)
	if rapid.Bool().Draw(t, "prec") {
		spec.WithPrec(t, s)
	}
	spec.WithSem(t, s)
	s.SetLang("go")
	for i := range s.Rules {
		if tx := s.Rules[i].Sem.Text(); tx != "" {
			s.Rules[i].Action = "{ " + tx + " }"
		}
	}
	// user text with characters that are special to formatting layers
	s.Epilogue += rapid.SampledFrom([]string{"", "\n// 100% done\nvar pct = 7 % 3\n", "\nvar format = \"%s %d %v %%\"\n", "\n// {{.CodeLast}} {{end}} `backquote`\n"}).Draw(t, "epiextra")
	epi := s.Epilogue
	cs := C19Case{Epilogue: epi}
	cs.Old = []byte(rapid.StringN(1, 200, 400).Draw(t, "old"))
	if rapid.IntRange(0, 3).Draw(t, "longold") == 0 {
		// an old file longer than any output: a writer that does not truncate leaves its tail
		cs.Old = []byte(strings.Repeat(string(cs.Old)+"\n// old contents\n", 1+60000/(len(cs.Old)+16)))
	}
	render := func() string { return s.Render(spec.RenderOpts{}) }
	insertAt := func(text, what string) string {
		// at a random line start inside the declarations or rules (before the epilogue)
		body := text[:len(text)-len(epi)]
		pos := rapid.IntRange(0, len(body)).Draw(t, "pos")
		for pos > 0 && pos < len(body) && body[pos-1] != '\n' && body[pos-1] != ' ' {
			pos++
		}
		if pos > len(body) {
			pos = len(body)
		}
		return body[:pos] + what + body[pos:] + epi
	}
	switch k := rapid.IntRange(0, 12).Draw(t, "fault"); k {
	case 0:
		cs.Fault = "none (well-formed)"
		cs.Text = render()
	case 1:
		cs.Fault = "lexical error"
		cs.Text = insertAt(render(), rapid.SampledFrom([]string{" @ ", " \\ ", " 'ab' ", " # ", " ` "}).Draw(t, "bad"))
	case 2:
		cs.Fault = "unbalanced brace"
		tx := render()
		i := strings.Index(tx, "{ $$")
		if i < 0 {
			i = strings.LastIndex(tx, "%%")
		}
		cs.Text = tx[:i] + "{ " + tx[i:]
	case 3:
		cs.Fault = "unterminated comment"
		cs.Text = insertAt(render(), " /* never closed ")
	case 4:
		cs.Fault = "missing colon"
		tx := render()
		i := strings.Index(tx, " :")
		cs.Text = tx
		if i > 0 {
			cs.Text = tx[:i] + " " + tx[i+2:]
		}
	case 5:
		cs.Fault = "undefined symbol / unproductive nonterminal"
		f := spec.InjectUnusable(t, s)
		cs.Fault = f.Kind + ": " + f.Note
		cs.Text = render()
	case 6:
		cs.Fault = "%type for a symbol without rule"
		tx := render()
		cs.Text = strings.Replace(tx, "%start", "%type <f0> ghost_nt\n%start", 1)
	case 7, 8:
		cs.Fault = "$n beyond the rule length"
		i := rapid.IntRange(0, len(s.Rules)-1).Draw(t, "rule")
		n := len(s.Rules[i].RHS) + rapid.IntRange(1, 3).Draw(t, "beyond")
		if k == 8 {
			n = 0
			cs.Fault = "$0"
		}
		s.Rules[i].Action = fmt.Sprintf("{ _ = $%d }", n)
		cs.Text = render()
	case 9:
		if rapid.IntRange(0, 3).Draw(t, "rarely") != 0 {
			cs.Fault = "none (well-formed)"
			cs.Text = render()
			break
		}
		cs.Fault = "more than 2000 states"
		// 27 rules with pairwise distinct 3-symbol prefixes and 78 more symbols
		// each: about 27*78 states, none shared
		nt := len(s.Terms)
		for a := 0; a < 3; a++ {
			for b := 0; b < 3; b++ {
				for d := 0; d < 3; d++ {
					rhs := []int{a % nt, b % nt, d % nt}
					if nt < 3 {
						rhs = []int{nt + s.Start, a % nt, nt + s.Start, b % nt, nt + s.Start, d % nt}
					}
					for j := 0; j < 78; j++ {
						rhs = append(rhs, (a+b+d+j)%nt)
					}
					s.Rules = append(s.Rules, spec.Rule{LHS: s.Start, RHS: rhs, Prec: -1})
				}
			}
		}
		cs.Text = render()
	case 10:
		cs.Fault = "missing first %%"
		tx := render()
		cs.Text = strings.Replace(tx, "%%", "", 1)
	default:
		_, files := [][]byte(nil), [][]byte{[]byte(render())}
		b, what := drawEdited(t, files)
		cs.Fault = "random edits: " + what
		cs.Text = string(b)
	}
	return cs
}

func evalC19(c *Ctx, cs C19Case) string {
	dir, err := os.MkdirTemp(c.OutDir, "c19-")
	if err != nil {
		c.Infra("mkdtemp: %v", err)
		return ""
	}
	defer os.RemoveAll(dir)
	in := filepath.Join(dir, "g.y")
	os.WriteFile(in, []byte(cs.Text), 0o644)
	for _, v := range []gen.Variant{gen.VGo, gen.VGoU, gen.VGoO, gen.VTs} {
		c.Eval(1)
		out := filepath.Join(dir, "out-"+v.Name)
		os.WriteFile(out, cs.Old, 0o644)
		r := gen.Generate(c.CLI(), v, in, out, 120*time.Second)
		if r.TimedOut {
			c.Inconclusive("generation timed out (C13's business)")
			continue
		}
		if r.EnvironmentFailure() {
			// the property is about failures attributable to the input
			c.Infra("the CLI failed for a reason of the machine, not of its input: exit %d, %s", r.Exit, clip(lastLine(r.Stderr), 200))
			return ""
		}
		now, err := os.ReadFile(out)
		if r.Failed() {
			c.Class("failed:" + faultRoot(cs.Fault))
			if err != nil {
				return fmt.Sprintf("variant %s: `yaccgo generate` failed (exit %d, fault: %s) and the existing output file is gone: %v\n%s", v.Name, r.Exit, cs.Fault, err, cs.Text)
			}
			if !bytes.Equal(now, cs.Old) {
				return fmt.Sprintf("variant %s: `yaccgo generate` failed (exit %d, fault: %s; %s) but the existing output file was changed: %d bytes before, %d bytes after (now starts with %q)\n%s",
					v.Name, r.Exit, cs.Fault, clip(lastLine(r.Stderr), 160), len(cs.Old), len(now), clip(string(now), 80), clip(cs.Text, 3000))
			}
			if lateFault(cs.Fault) {
				c.Nontrivial(Hash(cs.Text, v.Name))
				if c.WantSample() {
					c.Sample(map[string]interface{}{"fault": cs.Fault, "variant": v.Name, "exit": r.Exit, "diagnostic": clip(firstPanicLine(r.Stderr), 200), "grammar": clip(cs.Text, 1500)})
				}
			}
		} else {
			c.Class("succeeded:" + faultRoot(cs.Fault))
			if err != nil {
				return fmt.Sprintf("variant %s: `yaccgo generate` succeeded but there is no output file: %v", v.Name, err)
			}
			// epilogue: the text after the second %% as the file has it now
			epi := cs.Epilogue
			if i := secondSection(cs.Text); i >= 0 && strings.HasPrefix(cs.Fault, "random edits") {
				epi = cs.Text[i:]
			}
			if strings.HasPrefix(cs.Fault, "random edits") || strings.HasPrefix(cs.Fault, "missing") {
				// the epilogue position is not known for damaged files: only freshness is checked
				epi = ""
			}
			if !bytes.HasSuffix(bytes.TrimRight(now, " \t\r\n"), bytes.TrimRight([]byte(epi), " \t\r\n")) {
				return fmt.Sprintf("variant %s: generation succeeded but the output file does not end with the epilogue (ends with %q)\n%s", v.Name, clip(string(now[max(0, len(now)-120):]), 200), cs.Text)
			}
			if bytes.Contains(now, cs.Old) && len(cs.Old) > 8 {
				return fmt.Sprintf("variant %s: generation succeeded but the output file still contains the old bytes\n%s", v.Name, cs.Text)
			}
		}
	}
	return ""
}

func secondSection(text string) int {
	i := strings.Index(text, "%%")
	if i < 0 {
		return -1
	}
	j := strings.Index(text[i+2:], "%%")
	if j < 0 {
		return -1
	}
	return i + 2 + j + 2
}

func faultRoot(f string) string {
	if i := strings.Index(f, ":"); i > 0 {
		return f[:i]
	}
	return f
}

func lateFault(f string) bool {
	for _, p := range []string{"unproductive", "%type", "$n beyond", "$0", "more than 2000"} {
		if strings.HasPrefix(f, p) {
			return true
		}
	}
	return false
}

func lastLine(s string) string {
	l := strings.Split(strings.TrimSpace(s), "\n")
	return l[len(l)-1]
}

func firstPanicLine(s string) string {
	for _, l := range strings.Split(s, "\n") {
		if strings.HasPrefix(l, "panic:") {
			return l
		}
	}
	return lastLine(s)
}
