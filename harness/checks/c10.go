package checks

import (
	"encoding/json"
	"fmt"
	"os"
	"path/filepath"
	"strings"

	symbol "github.com/acekingke/yaccgo/Symbol"
	"pgregory.net/rapid"

	"verifharness/spec"
	"verifharness/yg"
)

func init() {
	Describe("C10", &PropInfo{
		Rule: "an abstract specification (rules with %prec and action texts, start symbol, explicit token numbers, value tags, precedence lines, prologue/union/epilogue texts, identifier and literal pools) is rendered with a rapid-drawn layout: separators from {space, tab, LF, blank lines}, // and /* */ comments (with bodies that contain grammar text and awkward shapes such as /**/) at any token boundary, separators omitted where two tokens may touch, ';' present or absent, alternatives joined by '|' or written as separate rules, declarations merged or split; the grammar yaccgo built must equal the specification. Non-trivial = layout with >= 2 comments, >= 1 omitted ';' and >= 1 rule boundary without a newline; distinct by rendered text",
		Assumptions: []string{
			"not generated (not claimed by the property or undocumented): CRLF line ends, a line break between %union and '{', brace characters inside string/char literals of an action, mid-rule actions, a token used as a rule's lhs, a backslash literal",
			"identifiers directly after a directive keyword may themselves start with (or equal) a keyword (e.g. %token left_paren): this is ordinary layout of ordinary names",
			"rules without %prec: the rule's precedence symbol is compared only when yacc's definition (last terminal) and yaccgo's (last terminal that has a precedence) agree",
		},
		Explanation: "round trip spec -> text -> yaccgo's grammar (G.Symbols, G.ProductoinRules, GetRules(i).ActionCode, GetCode/GetUion/GetCodeCopy) == spec; also the canonical rendering of the same spec must give the same grammar (metamorphic: layout change => no change)",
	})
	Register(&Unit{Prop: "C10", Name: "layout",
		Shards: func(tier string) int { return map[string]int{"quick": 8, "thorough": 16}[tier] },
		Run: func(c *Ctx) {
			c.P.Rule = "random spec x random layout"
			c.Rapid("layout", c.Pick(10000, 100000), func(t *rapid.T) {
				cs := drawC10(t)
				if msg := evalC10(c, cs); msg != "" {
					c.Fail(cs, msg)
					t.Fatalf("%s", msg)
				}
			})
		},
		Replay: func(c *Ctx, raw json.RawMessage) string {
			var cs C10Case
			if m := decodeCase(raw, &cs); m != "" {
				return m
			}
			return evalC10(c, cs)
		},
	})
}

type C10Case struct {
	Spec   *spec.Spec `json:"spec"`
	Layout []int      `json:"layout"`
	Text   string     `json:"text"` // rendered with Layout (informational; replay re-renders)
}

func drawC10(t *rapid.T) C10Case {
	var s *spec.Spec
	switch rapid.IntRange(0, 3).Draw(t, "base") {
	case 0:
		s, _ = spec.Separator(t)
	case 1:
		s = spec.LALRFamily(t)
	default:
		s = spec.Productive(t, smallCfg)
	}
	if rapid.Bool().Draw(t, "prec") {
		spec.WithPrec(t, s)
	}
	if rapid.IntRange(0, 3).Draw(t, "decls") > 0 {
		spec.WithDecls(t, s)
	}
	if rapid.Bool().Draw(t, "names") {
		spec.WithNames(t, s)
	}
	spec.WithTexts(t, s)
	lay := spec.DrawLayout(t)
	cs := C10Case{Spec: s, Layout: lay.Data}
	cs.Text = s.Render(spec.RenderOpts{Layout: &spec.SliceLayout{Data: lay.Data}})
	return cs
}

func evalC10(c *Ctx, cs C10Case) string {
	c.Eval(1)
	s := cs.Spec
	var st spec.LayoutStats
	text := s.Render(spec.RenderOpts{Layout: &spec.SliceLayout{Data: cs.Layout}, Stats: &st})
	canon := s.Render(spec.RenderOpts{})
	// the grammar must be usable for the comparison to make sense
	if !s.CFG().AllProductive() {
		c.Exclude("spec has an unproductive nonterminal")
		return ""
	}
	if msg := compareWithSpec(s, text); msg != "" {
		// is it the layout or the spec itself?
		if m2 := compareWithSpec(s, canon); m2 != "" {
			return fmt.Sprintf("canonical rendering is not read faithfully: %s\n--- text:\n%s", m2, canon)
		}
		return fmt.Sprintf("layout changes the result (the canonical rendering of the same specification is read correctly): %s\n--- text:\n%s\n--- canonical text:\n%s", msg, text, canon)
	}
	c.Class("read-faithfully")
	if st.Comments > 0 {
		c.Class("layout:comments")
	}
	if st.OmittedSemi > 0 {
		c.Class("layout:omitted-semicolon")
	}
	if st.NoNewlineGap > 0 {
		c.Class("layout:rule-boundary-without-newline")
	}
	if st.EmptySeps > 0 {
		c.Class("layout:tokens-touching")
	}
	if st.JoinedAlts > 0 {
		c.Class("layout:alternatives-joined")
	}
	if len(s.Prec) > 0 {
		c.Class("spec:precedence-lines")
	}
	if st.Comments >= 2 && st.OmittedSemi >= 1 && st.NoNewlineGap >= 1 {
		c.Nontrivial(Hash(text))
		if c.WantSample() {
			c.Sample(map[string]interface{}{"text": text, "comments": st.Comments, "omitted_semicolons": st.OmittedSemi, "rule_boundaries_without_newline": st.NoNewlineGap})
		}
	}
	return ""
}

// compareWithSpec builds text with yaccgo and compares the resulting grammar
// with the spec. Returns "" when they agree.
func compareWithSpec(s *spec.Spec, text string) string {
	res := yg.Build(text, false)
	if !res.Accepted() {
		return "yaccgo rejects the text: " + clip(res.Diagnostic(), 300)
	}
	root := res.Root
	G := root.LALR1.G
	// --- symbols
	type want struct {
		term  bool
		value int // 0 = any
		tag   string
		level int
		assoc string
	}
	wants := map[string]want{}
	for i, t := range s.Terms {
		w := want{term: true, tag: t.Tag}
		if t.IsLit() {
			w.value = int(t.Lit[0])
		} else if t.Code != 0 {
			w.value = t.Code
		}
		w.level, w.assoc = s.PrecOf(i)
		wants[t.YName()] = w
	}
	for _, n := range s.NTs {
		wants[n.Name] = want{term: false, tag: n.Tag}
	}
	seen := map[string]bool{}
	for i, sy := range G.Symbols {
		if i == 0 || i == 1 {
			continue
		}
		w, ok := wants[sy.Name]
		if !ok {
			return fmt.Sprintf("grammar has a symbol %q that is not in the specification", sy.Name)
		}
		if seen[sy.Name] {
			return fmt.Sprintf("symbol %q occurs twice", sy.Name)
		}
		seen[sy.Name] = true
		if sy.IsNonTerminator == w.term {
			return fmt.Sprintf("symbol %q: terminal/nonterminal status wrong", sy.Name)
		}
		if sy.Tag != w.tag {
			return fmt.Sprintf("symbol %q has value tag %q, declared %q", sy.Name, sy.Tag, w.tag)
		}
		if w.term {
			if w.value != 0 && sy.Value != w.value {
				return fmt.Sprintf("token %q has number %d, declared %d", sy.Name, sy.Value, w.value)
			}
			if w.level == 0 {
				if sy.Prec > 0 {
					return fmt.Sprintf("token %q has precedence level %d but is on no precedence line", sy.Name, sy.Prec)
				}
			} else {
				if sy.Prec != w.level {
					return fmt.Sprintf("token %q has precedence level %d, declared on precedence line %d", sy.Name, sy.Prec, w.level)
				}
				wa := map[string]symbol.E_Precedence{"left": symbol.LEFT, "right": symbol.RIGHT, "nonassoc": symbol.NONE, "precedence": symbol.NONE}[w.assoc]
				if sy.PrecType != wa {
					return fmt.Sprintf("token %q has associativity %d, declared %%%s", sy.Name, sy.PrecType, w.assoc)
				}
			}
		}
	}
	// two tokens never share a number (the spec's explicit numbers are distinct)
	byCode := map[int]string{}
	for i, sy := range G.Symbols {
		if i < 2 || sy.IsNonTerminator {
			continue
		}
		if other, dup := byCode[sy.Value]; dup {
			return fmt.Sprintf("tokens %q and %q both have the number %d", other, sy.Name, sy.Value)
		}
		byCode[sy.Value] = sy.Name
	}
	for name := range wants {
		if !seen[name] {
			return fmt.Sprintf("symbol %q of the specification is missing from the grammar", name)
		}
	}
	// --- rules
	if len(G.ProductoinRules) != len(s.Rules)+1 {
		return fmt.Sprintf("grammar has %d rules, the file has %d", len(G.ProductoinRules)-1, len(s.Rules))
	}
	r0 := G.ProductoinRules[0]
	if len(r0.RighPart) != 1 || r0.RighPart[0].Name != s.NTs[s.Start].Name {
		return fmt.Sprintf("start symbol is not %q", s.NTs[s.Start].Name)
	}
	for i, sr := range s.Rules {
		gr := G.ProductoinRules[i+1]
		var got, wantR []string
		for _, x := range gr.RighPart {
			got = append(got, x.Name)
		}
		for _, x := range sr.RHS {
			wantR = append(wantR, s.SymYName(x))
		}
		if gr.LeftPart.Name != s.NTs[sr.LHS].Name || strings.Join(got, " ") != strings.Join(wantR, " ") {
			return fmt.Sprintf("rule %d is %s : %s, the file says %s : %s", i+1, gr.LeftPart.Name, strings.Join(got, " "), s.NTs[sr.LHS].Name, strings.Join(wantR, " "))
		}
		// precedence symbol
		if sr.Prec >= 0 {
			wn := s.Terms[sr.Prec].YName()
			if lv, _ := s.PrecOf(sr.Prec); lv > 0 {
				if gr.PrecSymbol == nil || gr.PrecSymbol.Name != wn {
					return fmt.Sprintf("rule %d: %%prec %s lost (precedence symbol is %v)", i+1, wn, precName(gr.PrecSymbol))
				}
			}
		} else {
			lastT, lastP := -1, -1
			for j, x := range sr.RHS {
				if x < len(s.Terms) {
					lastT = j
					if lv, _ := s.PrecOf(x); lv > 0 {
						lastP = j
					}
				}
			}
			if lastP == -1 && gr.PrecSymbol != nil {
				return fmt.Sprintf("rule %d has precedence symbol %s but no %%prec and no terminal with precedence", i+1, gr.PrecSymbol.Name)
			}
			if lastP >= 0 && lastP == lastT {
				if wn := s.SymYName(sr.RHS[lastP]); gr.PrecSymbol == nil || gr.PrecSymbol.Name != wn {
					return fmt.Sprintf("rule %d: precedence symbol is %v, last terminal is %s", i+1, precName(gr.PrecSymbol), wn)
				}
			}
		}
		or := root.GetRules(i)
		if or.ActionCode != sr.Action {
			return fmt.Sprintf("rule %d: action text is %q, the file says %q", i+1, or.ActionCode, sr.Action)
		}
	}
	if root.GetCode() != s.Prologue+s.Prologue2 {
		return fmt.Sprintf("prologue is %q, the file's %%{ %%} blocks say %q", root.GetCode(), s.Prologue+s.Prologue2)
	}
	if !s.NoUnion && root.GetUion() != s.Union {
		return fmt.Sprintf("%%union body is %q, the file says %q", root.GetUion(), s.Union)
	}
	if root.GetCodeCopy() != s.Epilogue {
		return fmt.Sprintf("epilogue is %q, the file says %q", root.GetCodeCopy(), s.Epilogue)
	}
	return ""
}

func precName(s *symbol.Symbol) string {
	if s == nil {
		return "<none>"
	}
	return s.Name
}

// ---- output unit: the opaque texts must reach the generated file unchanged

func init() {
	Register(&Unit{Prop: "C10", Name: "output",
		Shards: func(tier string) int { return map[string]int{"quick": 4, "thorough": 16}[tier] },
		Run: func(c *Ctx) {
			c.P.Rule = "random spec x random layout, generated in-process as go, go -o and typescript: prologue, %union body, epilogue and every action text must appear in the output file unchanged, each action under the case of its own rule"
			c.Rapid("output", c.Pick(1200, 30000), func(t *rapid.T) {
				cs := drawC10(t)
				// actions without $-substitution so that the text must appear verbatim
				for i := range cs.Spec.Rules {
					if strings.Contains(cs.Spec.Rules[i].Action, "$") {
						cs.Spec.Rules[i].Action = fmt.Sprintf("{ /* action of rule %d */ mark(%d) }", i+1, i+1)
					}
				}
				cs.Text = cs.Spec.Render(spec.RenderOpts{Layout: &spec.SliceLayout{Data: cs.Layout}})
				if msg := evalC10Output(c, cs); msg != "" {
					c.Fail(cs, msg)
					t.Fatalf("%s", msg)
				}
			})
		},
		Replay: func(c *Ctx, raw json.RawMessage) string {
			var cs C10Case
			if m := decodeCase(raw, &cs); m != "" {
				return m
			}
			return evalC10Output(c, cs)
		},
	})
}

func evalC10Output(c *Ctx, cs C10Case) string {
	c.Eval(1)
	s := cs.Spec
	if !s.CFG().AllProductive() {
		c.Exclude("spec has an unproductive nonterminal")
		return ""
	}
	text := s.Render(spec.RenderOpts{Layout: &spec.SliceLayout{Data: cs.Layout}})
	dir, err := os.MkdirTemp(c.OutDir, "c10o-")
	if err != nil {
		c.Infra("mkdtemp: %v", err)
		return ""
	}
	defer os.RemoveAll(dir)
	for _, v := range []string{"go", "go-o", "ts"} {
		out := filepath.Join(dir, "out-"+v)
		r := yg.Generate(text, v, out)
		if r.Failed() {
			c.Class("generation-failed:" + v)
			continue
		}
		b, err := os.ReadFile(out)
		if err != nil {
			return fmt.Sprintf("variant %s: generation succeeded but wrote no file\n%s", v, text)
		}
		o := string(b)
		if !strings.Contains(o, s.Prologue+s.Prologue2) {
			return fmt.Sprintf("variant %s: the prologue %q does not appear unchanged in the output\n%s", v, s.Prologue+s.Prologue2, text)
		}
		if !s.NoUnion && !strings.Contains(o, s.Union) {
			return fmt.Sprintf("variant %s: the %%union body %q does not appear unchanged in the output\n%s", v, s.Union, text)
		}
		if !strings.HasSuffix(strings.TrimRight(o, " \t\r\n"), strings.TrimRight(s.Epilogue, " \t\r\n")) {
			return fmt.Sprintf("variant %s: the output does not end with the epilogue %q (it ends with %q)\n%s", v, s.Epilogue, clip(o[max(0, len(o)-120):], 200), text)
		}
		// actions under the case of their own rule: split the reduce switch
		for i, r := range s.Rules {
			if r.Action == "" {
				continue
			}
			head := fmt.Sprintf("case %d:", i+1)
			at := -1
			// the reduce function is the first switch that has both this case and the action text after it
			for from := 0; ; {
				k := strings.Index(o[from:], head)
				if k < 0 {
					break
				}
				k += from
				end := len(o)
				if nk := strings.Index(o[k+len(head):], fmt.Sprintf("case %d:", i+2)); nk >= 0 {
					end = k + len(head) + nk
				}
				if strings.Contains(o[k:end], r.Action) {
					at = k
					break
				}
				from = k + len(head)
			}
			if at < 0 {
				return fmt.Sprintf("variant %s: the action %q of rule %d does not appear unchanged under `case %d:` in the output\n%s", v, r.Action, i+1, i+1, text)
			}
		}
		c.Class("texts-carried:" + v)
	}
	c.Nontrivial(Hash(text))
	if c.WantSample() {
		c.Sample(map[string]interface{}{"text": text, "variants": []string{"go", "go-o", "ts"}})
	}
	return ""
}
