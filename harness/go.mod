module verifharness

go 1.23

require (
	github.com/acekingke/yaccgo v0.0.0
	pgregory.net/rapid v1.3.0
)

require github.com/awalterschulze/gographviz v2.0.3+incompatible

replace github.com/acekingke/yaccgo => /repo
