package ref

// Value is a semantic value: integer or string (only one is meaningful).
type Value struct {
	I int
	S string
}

// EvalFuncs supplies what the attribute evaluator needs from the spec.
type EvalFuncs struct {
	Token func(pos, term int) Value          // value the lexer gave to the token
	Rule  func(rule int, kids []Value) Value // value of the lhs given the rhs values
}

// Eval evaluates the tree bottom-up.
func (t *Tree) Eval(f EvalFuncs) Value {
	if t.Rule < 0 {
		return f.Token(t.Pos, t.Sym)
	}
	kids := make([]Value, len(t.Kids))
	for i, k := range t.Kids {
		kids[i] = k.Eval(f)
	}
	return f.Rule(t.Rule, kids)
}
