package ref

import "fmt"

// OpDef is an operator as the reference evaluator sees it.
type OpDef struct {
	Term      int
	RuleLevel int    // precedence level of the rule  e : e op e  /  e : op e   (0 = none)
	RuleAssoc string // associativity of that level
	TokLevel  int    // precedence level of the token when it is the lookahead (0 = none)
	TokAssoc  string
	Text      string
}

// OpGrammar: e : e op e | pre e | LP e RP | ATOM with yacc precedence.
type OpGrammar struct {
	Atom, LP, RP int
	Binary       map[int]OpDef
	Prefix       map[int]OpDef
	AtomText     func(pos int) string
}

type opItem struct {
	kind string // "val" "bin" "pre" "lp"
	val  string
	op   OpDef
}

// Eval is an operator-precedence shift-reduce evaluator that applies the
// resolution rule of yacc literally whenever a handle is on the stack and a
// binary operator is ahead: both rule and token have a precedence -> the
// higher wins; equal -> left reduces, right shifts, nonassoc is a syntax
// error; otherwise shift. Returns the fully parenthesised string.
func (g *OpGrammar) Eval(w []int) (string, error) {
	var st []opItem
	top := func(k int) *opItem {
		if len(st) < k {
			return nil
		}
		return &st[len(st)-k]
	}
	// handle returns the pending reduction on top of the stack, if any
	handle := func() (*OpDef, string) {
		t1, t2, t3 := top(1), top(2), top(3)
		if t1 == nil || t1.kind != "val" {
			return nil, ""
		}
		if t2 != nil && t2.kind == "bin" && t3 != nil && t3.kind == "val" {
			return &t2.op, "bin"
		}
		if t2 != nil && t2.kind == "pre" {
			return &t2.op, "pre"
		}
		return nil, ""
	}
	reduce := func(kind string) {
		switch kind {
		case "bin":
			r, op, l := st[len(st)-1], st[len(st)-2], st[len(st)-3]
			st = st[:len(st)-3]
			st = append(st, opItem{kind: "val", val: "(" + l.val + op.op.Text + r.val + ")"})
		case "pre":
			r, op := st[len(st)-1], st[len(st)-2]
			st = st[:len(st)-2]
			st = append(st, opItem{kind: "val", val: "(" + op.op.Text + r.val + ")"})
		}
	}
	for pos := 0; pos <= len(w); pos++ {
		eof := pos == len(w)
		var t int
		if !eof {
			t = w[pos]
		}
		expectOperand := top(1) == nil || top(1).kind != "val"
		if expectOperand {
			switch {
			case eof:
				return "", fmt.Errorf("unexpected end at %d", pos)
			case t == g.Atom:
				st = append(st, opItem{kind: "val", val: g.AtomText(pos)})
			case g.LP >= 0 && t == g.LP:
				st = append(st, opItem{kind: "lp"})
			default:
				if op, ok := g.Prefix[t]; ok {
					st = append(st, opItem{kind: "pre", op: op})
				} else {
					return "", fmt.Errorf("operand expected at %d", pos)
				}
			}
			continue
		}
		// an operand is on top
		for {
			h, kind := handle()
			bop, isBin := g.Binary[t]
			if eof {
				isBin = false
			}
			if h == nil {
				break
			}
			if !isBin {
				// no shift possible on this lookahead in the state after a handle:
				// reduce if the lookahead can follow an expression at all
				if eof || (g.RP >= 0 && t == g.RP) {
					reduce(kind)
					continue
				}
				return "", fmt.Errorf("unexpected token at %d", pos)
			}
			// shift/reduce conflict between rule h and token bop
			if h.RuleLevel > 0 && bop.TokLevel > 0 {
				if h.RuleLevel > bop.TokLevel {
					reduce(kind)
					continue
				}
				if h.RuleLevel == bop.TokLevel {
					// same level => same declaration line => same associativity
					switch h.RuleAssoc {
					case "left":
						reduce(kind)
						continue
					case "right":
					default:
						return "", fmt.Errorf("nonassociative operators at %d", pos)
					}
				}
			}
			break // shift
		}
		switch {
		case eof:
			if len(st) == 1 && st[0].kind == "val" {
				return st[0].val, nil
			}
			return "", fmt.Errorf("unexpected end")
		case g.RP >= 0 && t == g.RP:
			if len(st) >= 2 && st[len(st)-2].kind == "lp" {
				v := st[len(st)-1].val
				st = st[:len(st)-2]
				st = append(st, opItem{kind: "val", val: "[" + v + "]"})
			} else {
				return "", fmt.Errorf("unbalanced ) at %d", pos)
			}
		default:
			if bop, ok := g.Binary[t]; ok {
				st = append(st, opItem{kind: "bin", op: bop})
			} else {
				return "", fmt.Errorf("operator expected at %d", pos)
			}
		}
	}
	return "", fmt.Errorf("unreachable")
}

// EvalClimb is textbook precedence climbing for tables without prefix
// operators and in which every binary operator has a precedence; used only to
// cross-check Eval (the oracle is itself tested).
func (g *OpGrammar) EvalClimb(w []int) (string, error) {
	pos := 0
	var primary func() (string, error)
	var expr func(min int) (string, error)
	primary = func() (string, error) {
		if pos >= len(w) {
			return "", fmt.Errorf("end")
		}
		t := w[pos]
		if t == g.Atom {
			pos++
			return g.AtomText(pos - 1), nil
		}
		if g.LP >= 0 && t == g.LP {
			pos++
			v, err := expr(1)
			if err != nil {
				return "", err
			}
			if pos >= len(w) || w[pos] != g.RP {
				return "", fmt.Errorf(") expected")
			}
			pos++
			return "[" + v + "]", nil
		}
		return "", fmt.Errorf("operand expected")
	}
	expr = func(min int) (string, error) {
		l, err := primary()
		if err != nil {
			return "", err
		}
		lastNonassoc := 0
		for pos < len(w) {
			op, ok := g.Binary[w[pos]]
			if !ok || op.TokLevel < min {
				break
			}
			if op.TokAssoc == "nonassoc" && lastNonassoc == op.TokLevel {
				return "", fmt.Errorf("nonassoc chain")
			}
			pos++
			next := op.TokLevel + 1
			if op.TokAssoc == "right" {
				next = op.TokLevel
			}
			r, err := expr(next)
			if err != nil {
				return "", err
			}
			l = "(" + l + op.Text + r + ")"
			lastNonassoc = 0
			if op.TokAssoc == "nonassoc" {
				lastNonassoc = op.TokLevel
			}
		}
		return l, nil
	}
	v, err := expr(1)
	if err != nil {
		return "", err
	}
	if pos != len(w) {
		return "", fmt.Errorf("trailing input at %d", pos)
	}
	return v, nil
}
