package ref

import "fmt"

// RecField is a field of a Graphviz record label.
type RecField struct {
	Text  string // unescaped text (for leaf fields), port removed
	Port  string
	Group bool
	Sub   []RecField
}

// ParseRecordLabel parses a Graphviz record-shape label (the content of the
// quoted string, DOT string escapes already resolved) according to the
// record grammar: fields separated by '|', '{' '}' flip/nest, '<port>'
// prefixes, backslash escapes for { } | < > and blank.
func ParseRecordLabel(s string) ([]RecField, error) {
	p := &recParser{s: []rune(s)}
	f, err := p.fields(false)
	if err != nil {
		return nil, err
	}
	if p.i != len(p.s) {
		return nil, fmt.Errorf("unbalanced '}' at %d", p.i)
	}
	return f, nil
}

type recParser struct {
	s []rune
	i int
}

func (p *recParser) fields(nested bool) ([]RecField, error) {
	var out []RecField
	for {
		f, err := p.field()
		if err != nil {
			return nil, err
		}
		out = append(out, f)
		if p.i < len(p.s) && p.s[p.i] == '|' {
			p.i++
			continue
		}
		if p.i < len(p.s) && p.s[p.i] == '}' {
			if !nested {
				return out, nil // caller reports the stray brace
			}
			return out, nil
		}
		if p.i >= len(p.s) {
			if nested {
				return nil, fmt.Errorf("missing '}'")
			}
			return out, nil
		}
		return nil, fmt.Errorf("unexpected %q at %d", p.s[p.i], p.i)
	}
}

func (p *recParser) field() (RecField, error) {
	// skip blanks
	for p.i < len(p.s) && p.s[p.i] == ' ' {
		p.i++
	}
	if p.i < len(p.s) && p.s[p.i] == '{' {
		p.i++
		sub, err := p.fields(true)
		if err != nil {
			return RecField{}, err
		}
		if p.i >= len(p.s) || p.s[p.i] != '}' {
			return RecField{}, fmt.Errorf("missing '}'")
		}
		p.i++
		for p.i < len(p.s) && p.s[p.i] == ' ' {
			p.i++
		}
		return RecField{Group: true, Sub: sub}, nil
	}
	var f RecField
	var text []rune
	for p.i < len(p.s) {
		c := p.s[p.i]
		switch {
		case c == '\\' && p.i+1 < len(p.s):
			text = append(text, p.s[p.i+1])
			p.i += 2
			continue
		case c == '|' || c == '}':
			f.Text = string(text)
			return f, nil
		case c == '{':
			return f, fmt.Errorf("'{' inside a text field at %d", p.i)
		case c == '<':
			j := p.i + 1
			for j < len(p.s) && p.s[j] != '>' {
				j++
			}
			if j >= len(p.s) {
				return f, fmt.Errorf("unterminated port at %d", p.i)
			}
			f.Port = string(p.s[p.i+1 : j])
			p.i = j + 1
			continue
		case c == '>':
			return f, fmt.Errorf("stray '>' at %d", p.i)
		}
		text = append(text, c)
		p.i++
	}
	f.Text = string(text)
	return f, nil
}
