// Package ref holds the reference algorithms used as oracles. It imports
// nothing from yaccgo and shares no algorithm with it: yaccgo computes LALR(1)
// lookaheads with DeRemer-Pennello relations, ref builds the canonical LR(1)
// automaton and merges states with equal cores.
package ref

import (
	"fmt"
	"sort"
	"strings"
)

// CFG: symbols 0..NT-1 are terminals, NT..NT+NN-1 nonterminals. Rule 0 is the
// augmented rule S' -> Start; S' has index -1 and never occurs on a rhs.
type CFG struct {
	NT, NN int
	Names  []string
	Rules  []Rule // Rules[0] = {LHS:-1, RHS:[Start]}
}

type Rule struct {
	LHS int
	RHS []int
}

func (g *CFG) IsT(s int) bool { return s >= 0 && s < g.NT }
func (g *CFG) Start() int     { return g.Rules[0].RHS[0] }

// TSet is a set of terminals 0..NT-1 plus the end marker (bit NT).
type TSet uint64

func (g *CFG) DollarBit() TSet { return TSet(1) << uint(g.NT) }
func Bit(i int) TSet           { return TSet(1) << uint(i) }
func (s TSet) Has(i int) bool  { return s&Bit(i) != 0 }

func (g *CFG) SetNames(s TSet) string {
	var o []string
	for i := 0; i <= g.NT; i++ {
		if s.Has(i) {
			if i == g.NT {
				o = append(o, "$")
			} else {
				o = append(o, g.Names[i])
			}
		}
	}
	return "{" + strings.Join(o, " ") + "}"
}

func (g *CFG) RuleString(i int) string {
	r := g.Rules[i]
	l := "$accept"
	if r.LHS >= 0 {
		l = g.Names[r.LHS]
	}
	var rhs []string
	for _, s := range r.RHS {
		rhs = append(rhs, g.Names[s])
	}
	return l + " -> " + strings.Join(rhs, " ")
}

func (g *CFG) Nullable() []bool {
	n := make([]bool, g.NT+g.NN)
	for ch := true; ch; {
		ch = false
		for _, r := range g.Rules[1:] {
			if n[r.LHS] {
				continue
			}
			ok := true
			for _, s := range r.RHS {
				if !n[s] {
					ok = false
					break
				}
			}
			if ok {
				n[r.LHS] = true
				ch = true
			}
		}
	}
	return n
}

// Productive[s] is true iff s derives some string of terminals.
func (g *CFG) Productive() []bool {
	p := make([]bool, g.NT+g.NN)
	for i := 0; i < g.NT; i++ {
		p[i] = true
	}
	for ch := true; ch; {
		ch = false
		for _, r := range g.Rules[1:] {
			if p[r.LHS] {
				continue
			}
			ok := true
			for _, s := range r.RHS {
				if !p[s] {
					ok = false
					break
				}
			}
			if ok {
				p[r.LHS] = true
				ch = true
			}
		}
	}
	return p
}

func (g *CFG) AllProductive() bool {
	p := g.Productive()
	for i := g.NT; i < g.NT+g.NN; i++ {
		if !p[i] {
			return false
		}
	}
	return true
}

// Reachable nonterminals/terminals from the start symbol.
func (g *CFG) Reachable() []bool {
	r := make([]bool, g.NT+g.NN)
	r[g.Start()] = true
	for ch := true; ch; {
		ch = false
		for _, ru := range g.Rules[1:] {
			if !r[ru.LHS] {
				continue
			}
			for _, s := range ru.RHS {
				if !r[s] {
					r[s] = true
					ch = true
				}
			}
		}
	}
	return r
}

func (g *CFG) First() []TSet {
	null := g.Nullable()
	f := make([]TSet, g.NT+g.NN)
	for i := 0; i < g.NT; i++ {
		f[i] = Bit(i)
	}
	for ch := true; ch; {
		ch = false
		for _, r := range g.Rules[1:] {
			old := f[r.LHS]
			for _, s := range r.RHS {
				f[r.LHS] |= f[s]
				if !null[s] {
					break
				}
			}
			if f[r.LHS] != old {
				ch = true
			}
		}
	}
	return f
}

// Follow sets (with $ for the start symbol), textbook fixpoint.
func (g *CFG) Follow() []TSet {
	null, first := g.Nullable(), g.First()
	fo := make([]TSet, g.NT+g.NN)
	fo[g.Start()] |= g.DollarBit()
	for ch := true; ch; {
		ch = false
		for _, r := range g.Rules[1:] {
			for i, s := range r.RHS {
				if g.IsT(s) {
					continue
				}
				old := fo[s]
				rest := true
				for _, x := range r.RHS[i+1:] {
					fo[s] |= first[x]
					if !null[x] {
						rest = false
						break
					}
				}
				if rest {
					fo[s] |= fo[r.LHS]
				}
				if fo[s] != old {
					ch = true
				}
			}
		}
	}
	return fo
}

type Item struct{ R, D int }

func (g *CFG) RulesOf(a int) []int {
	var out []int
	for i, r := range g.Rules {
		if r.LHS == a {
			out = append(out, i)
		}
	}
	return out
}

func SortItems(it []Item) []Item {
	o := append([]Item{}, it...)
	sort.Slice(o, func(a, b int) bool {
		if o[a].R != o[b].R {
			return o[a].R < o[b].R
		}
		return o[a].D < o[b].D
	})
	return o
}

func ItemsKey(it []Item) string {
	var sb strings.Builder
	for _, i := range it {
		fmt.Fprintf(&sb, "%d.%d;", i.R, i.D)
	}
	return sb.String()
}

// ---------- canonical LR(0) collection ----------

type LR0State struct {
	Items []Item // full closure, sorted by (rule, dot)
	Goto  map[int]int
}

func (g *CFG) closure0(k []Item) []Item {
	seen := map[Item]bool{}
	var out, w []Item
	for _, i := range k {
		if !seen[i] {
			seen[i] = true
			out = append(out, i)
			w = append(w, i)
		}
	}
	for len(w) > 0 {
		it := w[len(w)-1]
		w = w[:len(w)-1]
		r := g.Rules[it.R]
		if it.D < len(r.RHS) && !g.IsT(r.RHS[it.D]) {
			for _, ri := range g.RulesOf(r.RHS[it.D]) {
				n := Item{ri, 0}
				if !seen[n] {
					seen[n] = true
					out = append(out, n)
					w = append(w, n)
				}
			}
		}
	}
	return SortItems(out)
}

// BuildLR0 returns the canonical collection, state 0 = closure of [S'->.S].
// maxStates bounds the construction (0 = unbounded); ok=false when exceeded.
func (g *CFG) BuildLR0(maxStates int) ([]*LR0State, bool) {
	start := g.closure0([]Item{{0, 0}})
	states := []*LR0State{{Items: start, Goto: map[int]int{}}}
	idx := map[string]int{ItemsKey(start): 0}
	for q := 0; q < len(states); q++ {
		st := states[q]
		nxt := map[int][]Item{}
		var order []int
		for _, it := range st.Items {
			r := g.Rules[it.R]
			if it.D < len(r.RHS) {
				x := r.RHS[it.D]
				if _, ok := nxt[x]; !ok {
					order = append(order, x)
				}
				nxt[x] = append(nxt[x], Item{it.R, it.D + 1})
			}
		}
		for _, x := range order {
			c := g.closure0(nxt[x])
			k := ItemsKey(c)
			t, ok := idx[k]
			if !ok {
				t = len(states)
				if maxStates > 0 && t >= maxStates {
					return nil, false
				}
				idx[k] = t
				states = append(states, &LR0State{Items: c, Goto: map[int]int{}})
			}
			st.Goto[x] = t
		}
	}
	return states, true
}

// ---------- canonical LR(1), merged by core = LALR(1) by definition ----------

type lr1State struct {
	items map[Item]TSet
}

func (g *CFG) firstOfSeq(seq []int, la TSet, first []TSet, null []bool) TSet {
	var out TSet
	for _, s := range seq {
		out |= first[s]
		if !null[s] {
			return out
		}
	}
	return out | la
}

func (g *CFG) closure1(k map[Item]TSet, first []TSet, null []bool) map[Item]TSet {
	out := map[Item]TSet{}
	for i, l := range k {
		out[i] = l
	}
	for ch := true; ch; {
		ch = false
		for it, la := range out {
			r := g.Rules[it.R]
			if it.D < len(r.RHS) && !g.IsT(r.RHS[it.D]) {
				f := g.firstOfSeq(r.RHS[it.D+1:], la, first, null)
				for _, ri := range g.RulesOf(r.RHS[it.D]) {
					n := Item{ri, 0}
					old, ok := out[n]
					if !ok || old|f != old {
						out[n] = old | f
						ch = true
					}
				}
			}
		}
	}
	return out
}

func lr1Items(m map[Item]TSet) []Item {
	its := make([]Item, 0, len(m))
	for i := range m {
		its = append(its, i)
	}
	return SortItems(its)
}

func lr1Key(m map[Item]TSet) string {
	var sb strings.Builder
	for _, i := range lr1Items(m) {
		fmt.Fprintf(&sb, "%d.%d:%x;", i.R, i.D, uint64(m[i]))
	}
	return sb.String()
}

// LALRLookaheads returns, for each LR(0) state (indexed like lr0), a map
// rule -> lookahead set for every complete item, computed as the union over
// all canonical LR(1) states with the same core. ok=false if the LR(1)
// automaton exceeded maxStates. n1 is the number of LR(1) states.
func (g *CFG) LALRLookaheads(lr0 []*LR0State, maxStates int) (out []map[int]TSet, n1 int, ok bool) {
	first, null := g.First(), g.Nullable()
	start := g.closure1(map[Item]TSet{{0, 0}: g.DollarBit()}, first, null)
	states := []*lr1State{{items: start}}
	idx := map[string]int{lr1Key(start): 0}
	for q := 0; q < len(states); q++ {
		st := states[q]
		nxt := map[int]map[Item]TSet{}
		for it, la := range st.items {
			r := g.Rules[it.R]
			if it.D < len(r.RHS) {
				x := r.RHS[it.D]
				if nxt[x] == nil {
					nxt[x] = map[Item]TSet{}
				}
				nxt[x][Item{it.R, it.D + 1}] |= la
			}
		}
		for _, k := range nxt {
			c := g.closure1(k, first, null)
			key := lr1Key(c)
			if _, ok := idx[key]; !ok {
				t := len(states)
				if t >= maxStates {
					return nil, t, false
				}
				idx[key] = t
				states = append(states, &lr1State{items: c})
			}
		}
	}
	lr0idx := map[string]int{}
	for i, s := range lr0 {
		lr0idx[ItemsKey(s.Items)] = i
	}
	out = make([]map[int]TSet, len(lr0))
	for i := range out {
		out[i] = map[int]TSet{}
	}
	for _, s := range states {
		q, ok := lr0idx[ItemsKey(lr1Items(s.items))]
		if !ok {
			panic("ref: LR(1) core is not an LR(0) state")
		}
		for it, la := range s.items {
			if it.D == len(g.Rules[it.R].RHS) {
				out[q][it.R] |= la
			}
		}
	}
	return out, len(states), true
}

// ---------- conflict classification ----------

type Conflict struct {
	State   int
	Term    int   // terminal index, NT for $
	Shift   bool  // a shift on Term exists
	Reduces []int // rules reducing on Term, ascending
}

// Conflicts lists every (state, terminal) cell with more than one candidate.
func (g *CFG) Conflicts(lr0 []*LR0State, la []map[int]TSet) []Conflict {
	var out []Conflict
	for q, st := range lr0 {
		for t := 0; t <= g.NT; t++ {
			c := Conflict{State: q, Term: t}
			if t < g.NT {
				_, c.Shift = st.Goto[t]
			}
			for r, s := range la[q] {
				if s.Has(t) {
					c.Reduces = append(c.Reduces, r)
				}
			}
			sort.Ints(c.Reduces)
			n := len(c.Reduces)
			if c.Shift {
				n++
			}
			if n > 1 {
				out = append(out, c)
			}
		}
	}
	return out
}

// Class: "LR0", "SLR", "LALR", "other" (not LALR(1): has an LALR conflict).
func (g *CFG) Class(lr0 []*LR0State, la []map[int]TSet) string {
	if len(g.Conflicts(lr0, la)) > 0 {
		return "other"
	}
	// LR(0): no state has a complete item together with any other item
	// (except the accept item alone) -- simplified: every state with a
	// complete item has exactly one item.
	lr0ok := true
	for _, st := range lr0 {
		nc := 0
		for _, it := range st.Items {
			if it.D == len(g.Rules[it.R].RHS) {
				nc++
			}
		}
		if nc > 0 && len(st.Items) > 1 {
			lr0ok = false
		}
	}
	if lr0ok {
		return "LR0"
	}
	fo := g.Follow()
	slr := make([]map[int]TSet, len(lr0))
	for q, st := range lr0 {
		slr[q] = map[int]TSet{}
		for _, it := range st.Items {
			if it.D == len(g.Rules[it.R].RHS) {
				if it.R == 0 {
					slr[q][0] = g.DollarBit()
				} else {
					slr[q][it.R] = fo[g.Rules[it.R].LHS]
				}
			}
		}
	}
	if len(g.Conflicts(lr0, slr)) == 0 {
		return "SLR"
	}
	return "LALR"
}
