package ref

// MinLens returns, per symbol, the length of the shortest terminal string it
// derives (-1 when unproductive) and per nonterminal the rule achieving it.
func (g *CFG) MinLens() ([]int, []int) {
	n := g.NT + g.NN
	ml := make([]int, n)
	best := make([]int, n)
	for i := range ml {
		ml[i] = -1
		best[i] = -1
		if i < g.NT {
			ml[i] = 1
		}
	}
	for ch := true; ch; {
		ch = false
		for ri, r := range g.Rules {
			if ri == 0 {
				continue
			}
			sum := 0
			ok := true
			for _, s := range r.RHS {
				if ml[s] < 0 {
					ok = false
					break
				}
				sum += ml[s]
			}
			if ok && (ml[r.LHS] < 0 || sum < ml[r.LHS]) {
				ml[r.LHS] = sum
				best[r.LHS] = ri
				ch = true
			}
		}
	}
	return ml, best
}

// Derive produces a sentence by leftmost derivation: while budget lasts the
// i-th expansion picks rule choices[i] (mod the number of alternatives);
// afterwards the shortest rule. Returns nil when the start symbol is
// unproductive. maxLen bounds the sentence length (expansions switch to the
// shortest rule when the pending minimum length would exceed it).
func (g *CFG) Derive(choices []int, maxLen int) []int {
	ml, best := g.MinLens()
	if ml[g.Start()] < 0 {
		return nil
	}
	var out []int
	stack := []int{g.Start()}
	pending := ml[g.Start()]
	ci := 0
	steps := 0
	for len(stack) > 0 {
		x := stack[len(stack)-1]
		stack = stack[:len(stack)-1]
		if g.IsT(x) {
			out = append(out, x)
			continue
		}
		steps++
		rules := g.RulesOf(x)
		ri := best[x]
		if ci < len(choices) && steps < 4000 {
			cand := rules[abs(choices[ci])%len(rules)]
			ci++
			// only productive alternatives, and keep the length bounded
			sum, ok := 0, true
			for _, s := range g.Rules[cand].RHS {
				if ml[s] < 0 {
					ok = false
					break
				}
				sum += ml[s]
			}
			if ok && len(out)+pending-ml[x]+sum <= maxLen {
				ri = cand
			}
		}
		r := g.Rules[ri]
		sum := 0
		for _, s := range r.RHS {
			sum += ml[s]
		}
		pending += sum - ml[x]
		for k := len(r.RHS) - 1; k >= 0; k-- {
			stack = append(stack, r.RHS[k])
		}
	}
	return out
}

func abs(x int) int {
	if x < 0 {
		return -x
	}
	return x
}

// AllStrings calls f for every string over nt terminals with length <= maxLen
// (in length-lexicographic DFS order) until f returns false.
func AllStrings(nt, maxLen int, f func([]int) bool) {
	var rec func(cur []int) bool
	rec = func(cur []int) bool {
		if !f(cur) {
			return false
		}
		if len(cur) == maxLen {
			return true
		}
		for t := 0; t < nt; t++ {
			if !rec(append(cur, t)) {
				return false
			}
		}
		return true
	}
	rec(nil)
}

// LenFor returns the largest k such that the number of strings over nt
// terminals of length <= k does not exceed limit.
func LenFor(nt, limit int) int {
	k, total, p := 0, 1, 1
	for {
		p *= nt
		if nt == 0 || total+p > limit {
			return k
		}
		total += p
		k++
		if k >= 12 {
			return k
		}
	}
}
