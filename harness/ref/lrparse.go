package ref

// LRTables is a reference LALR(1) parser built from the canonical LR(0)
// collection and the reference lookahead sets.
type LRTables struct {
	G   *CFG
	LR0 []*LR0State
	LA  []map[int]TSet
	// Usable is false when some cell has a conflict other than between
	// textually identical productions (those are resolved to the first one,
	// which does not change the shape of the tree).
	Usable bool
}

func sameProduction(g *CFG, a, b int) bool {
	ra, rb := g.Rules[a], g.Rules[b]
	if ra.LHS != rb.LHS || len(ra.RHS) != len(rb.RHS) {
		return false
	}
	for i := range ra.RHS {
		if ra.RHS[i] != rb.RHS[i] {
			return false
		}
	}
	return true
}

func NewLRTables(g *CFG, lr0 []*LR0State, la []map[int]TSet) *LRTables {
	t := &LRTables{G: g, LR0: lr0, LA: la, Usable: true}
	for _, c := range g.Conflicts(lr0, la) {
		if c.Shift {
			t.Usable = false
			break
		}
		for _, r := range c.Reduces[1:] {
			if !sameProduction(g, c.Reduces[0], r) {
				t.Usable = false
			}
		}
	}
	return t
}

// Parse returns the reductions (rule numbers, in order) of the unique parse of
// w, or ok=false when w is not a sentence.
func (t *LRTables) Parse(w []int) (reds []int, ok bool) {
	g := t.G
	st := []int{0}
	pos := 0
	for steps := 0; steps < 100000; steps++ {
		q := st[len(st)-1]
		la := g.NT
		if pos < len(w) {
			la = w[pos]
			if la < 0 || la >= g.NT {
				return nil, false
			}
		}
		if pos < len(w) {
			if to, ok := t.LR0[q].Goto[la]; ok {
				st = append(st, to)
				pos++
				continue
			}
		}
		rule := -1
		for r, s := range t.LA[q] {
			if s.Has(la) && (rule == -1 || r < rule) {
				rule = r
			}
		}
		if rule == -1 {
			return nil, false
		}
		if rule == 0 {
			return reds, pos == len(w)
		}
		n := len(g.Rules[rule].RHS)
		st = st[:len(st)-n]
		to, ok := t.LR0[st[len(st)-1]].Goto[g.Rules[rule].LHS]
		if !ok {
			return nil, false
		}
		st = append(st, to)
		reds = append(reds, rule)
	}
	return nil, false
}
