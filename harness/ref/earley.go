package ref

import "fmt"

type eit struct{ r, d, o int }

// earley runs the recogniser and returns the item sets (as membership maps).
func (g *CFG) earley(w []int) []map[eit]bool {
	null := g.Nullable()
	n := len(w)
	sets := make([]map[eit]bool, n+1)
	lists := make([][]eit, n+1)
	for i := range sets {
		sets[i] = map[eit]bool{}
	}
	add := func(k int, e eit) {
		if !sets[k][e] {
			sets[k][e] = true
			lists[k] = append(lists[k], e)
		}
	}
	add(0, eit{0, 0, 0})
	for k := 0; k <= n; k++ {
		for i := 0; i < len(lists[k]); i++ {
			e := lists[k][i]
			r := g.Rules[e.r]
			if e.d < len(r.RHS) {
				x := r.RHS[e.d]
				if g.IsT(x) {
					if k < n && w[k] == x {
						add(k+1, eit{e.r, e.d + 1, e.o})
					}
				} else {
					for _, ri := range g.RulesOf(x) {
						add(k, eit{ri, 0, k})
					}
					if null[x] {
						add(k, eit{e.r, e.d + 1, e.o})
					}
				}
			} else {
				for j := 0; j < len(lists[e.o]); j++ {
					p := lists[e.o][j]
					pr := g.Rules[p.r]
					if p.d < len(pr.RHS) && pr.RHS[p.d] == r.LHS {
						add(k, eit{p.r, p.d + 1, p.o})
					}
				}
			}
		}
		if len(lists[k]) == 0 {
			// dead: all later sets stay empty
			break
		}
	}
	return sets
}

// Member reports whether w (terminal indices; anything outside 0..NT-1 never
// matches) is a sentence of g.
func (g *CFG) Member(w []int) bool {
	return g.earley(w)[len(w)][eit{0, 1, 0}]
}

// ViablePrefixLen returns the length of the longest prefix of w that is a
// prefix of some sentence, assuming every nonterminal of g is productive
// (then a non-empty Earley set k means w[:k] can be completed).
func (g *CFG) ViablePrefixLen(w []int) int {
	sets := g.earley(w)
	best := 0
	for k := 0; k <= len(w); k++ {
		if len(sets[k]) > 0 {
			best = k
		} else {
			break
		}
	}
	return best
}

// CheckDerivation verifies that reds (rule numbers in the order the parser
// performed them), read backwards, is a rightmost derivation of exactly w
// from the start symbol.
func (g *CFG) CheckDerivation(reds []int, w []int) error {
	form := []int{g.Start()}
	for i := len(reds) - 1; i >= 0; i-- {
		if reds[i] <= 0 || reds[i] >= len(g.Rules) {
			return fmt.Errorf("reduction %d: rule number %d out of range", i, reds[i])
		}
		r := g.Rules[reds[i]]
		k := len(form) - 1
		for k >= 0 && g.IsT(form[k]) {
			k--
		}
		if k < 0 {
			return fmt.Errorf("reduction %d (rule %d): sentential form has no nonterminal left", i, reds[i])
		}
		if form[k] != r.LHS {
			return fmt.Errorf("reduction %d (rule %d: %s): rightmost nonterminal is %s", i, reds[i], g.RuleString(reds[i]), g.Names[form[k]])
		}
		nf := append([]int{}, form[:k]...)
		nf = append(nf, r.RHS...)
		nf = append(nf, form[k+1:]...)
		form = nf
		if len(form) > 4*len(w)+64 && len(form) > 4096 {
			return fmt.Errorf("sentential form explodes")
		}
	}
	if len(form) != len(w) {
		return fmt.Errorf("derived %v, input %v", g.names(form), g.names(w))
	}
	for i := range w {
		if form[i] != w[i] {
			return fmt.Errorf("derived %v, input %v", g.names(form), g.names(w))
		}
	}
	return nil
}

func (g *CFG) names(s []int) []string {
	o := make([]string, len(s))
	for i, x := range s {
		if x >= 0 && x < len(g.Names) {
			o[i] = g.Names[x]
		} else {
			o[i] = fmt.Sprintf("?%d", x)
		}
	}
	return o
}

// Tree is a parse tree node built from a reduction sequence.
type Tree struct {
	Sym  int // symbol
	Rule int // rule number for nonterminals, -1 for tokens
	Pos  int // token position for terminals
	Kids []*Tree
}

// BuildTree replays reductions bottom-up over w and returns the tree. It is
// the LR view (shift until the handle is on the stack) and needs the position
// at which each reduction happened; it derives them from the rightmost
// derivation instead: expand top-down from the start symbol.
func (g *CFG) BuildTree(reds []int, w []int) (*Tree, error) {
	if err := g.CheckDerivation(reds, w); err != nil {
		return nil, err
	}
	i := len(reds) - 1
	pos := len(w) - 1
	var expand func(sym int) *Tree
	expand = func(sym int) *Tree {
		if g.IsT(sym) {
			t := &Tree{Sym: sym, Rule: -1, Pos: pos}
			pos--
			return t
		}
		rn := reds[i]
		i--
		r := g.Rules[rn]
		t := &Tree{Sym: sym, Rule: rn, Kids: make([]*Tree, len(r.RHS))}
		for k := len(r.RHS) - 1; k >= 0; k-- {
			t.Kids[k] = expand(r.RHS[k])
		}
		return t
	}
	root := expand(g.Start())
	return root, nil
}

func (t *Tree) Depth() int {
	d := 0
	for _, k := range t.Kids {
		if kd := k.Depth(); kd > d {
			d = kd
		}
	}
	return d + 1
}
