// Package fuzz holds the native (coverage-guided) fuzz target used by the
// thorough tier of C13. Go's fuzzer cannot be seeded: only the crashers it
// saves under testdata/fuzz are evidence, and each is confirmed with the real
// CLI before it is reported.
package fuzz

import (
	"os"
	"path/filepath"
	"testing"
	"time"

	"verifharness/yg"
)

func FuzzFrontEnd(f *testing.F) {
	dir := os.Getenv("VERIF_DIR")
	if dir == "" {
		dir = "/verif"
	}
	m, _ := filepath.Glob(filepath.Join(dir, "corpus", "*.y"))
	for _, p := range m {
		if b, err := os.ReadFile(p); err == nil {
			f.Add(string(b))
		}
	}
	for _, s := range []string{"%token <", "%start", "%union {", "/*", "%{", "'\\", "s : ;", "%%\n%%"} {
		f.Add(s)
	}
	f.Fuzz(func(t *testing.T, text string) {
		if len(text) > 4096 {
			return
		}
		done := make(chan struct{})
		go func() {
			defer close(done)
			yg.Build(text, false)
		}()
		select {
		case <-done:
		case <-time.After(20 * time.Second):
			t.Fatalf("ParseAndBuild does not finish within 20 s on a %d-byte input", len(text))
		}
	})
}
