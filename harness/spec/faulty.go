package spec

import (
	"fmt"

	"pgregory.net/rapid"
)

// Fault describes one injected defect of a grammar.
type Fault struct {
	Kind string `json:"kind"`
	Note string `json:"note"`
}

// InjectUnusable modifies a productive spec so that it becomes unusable in
// one of the two ways C12 names: it uses an undefined symbol, or it contains a
// nonterminal that derives no terminal string. Returns the fault and, for
// undefined symbols, the extra raw rule text to append (the undefined name
// cannot be expressed in the Spec's symbol table by definition).
func InjectUnusable(t *rapid.T, s *Spec) Fault {
	nt := len(s.Terms)
	nn := len(s.NTs)
	add := func(name string) int {
		s.NTs = append(s.NTs, NonTerm{Name: name})
		return nt + len(s.NTs) - 1
	}
	useIn := func(sym int) {
		// use sym somewhere in an existing rule (makes it reachable, maybe)
		i := rapid.IntRange(0, len(s.Rules)-1).Draw(t, "userule")
		r := &s.Rules[i]
		at := rapid.IntRange(0, len(r.RHS)).Draw(t, "useat")
		r.RHS = append(r.RHS[:at:at], append([]int{sym}, r.RHS[at:]...)...)
	}
	switch k := rapid.IntRange(0, 6).Draw(t, "fault"); k {
	case 0: // self-recursive only
		u := add("u_self")
		s.Rules = append(s.Rules, Rule{LHS: u - nt, RHS: []int{u, rapid.IntRange(0, nt-1).Draw(t, "t")}, Prec: -1})
		useIn(u)
		return Fault{"unproductive", "u_self : u_self T (used in a rule)"}
	case 1: // mutual recursion
		a := add("u_a")
		b := add("u_b")
		s.Rules = append(s.Rules, Rule{LHS: a - nt, RHS: []int{rapid.IntRange(0, nt-1).Draw(t, "t"), b}, Prec: -1})
		s.Rules = append(s.Rules, Rule{LHS: b - nt, RHS: []int{a}, Prec: -1})
		useIn(a)
		return Fault{"unproductive", "u_a : T u_b ; u_b : u_a (mutual recursion)"}
	case 2: // unreachable unproductive nonterminal
		u := add("u_unreach")
		s.Rules = append(s.Rules, Rule{LHS: u - nt, RHS: []int{u}, Prec: -1})
		return Fault{"unproductive", "u_unreach : u_unreach (not reachable from the start symbol)"}
	case 3: // the start symbol itself
		u := add("u_start")
		old := s.Start
		s.Rules = append(s.Rules, Rule{LHS: u - nt, RHS: []int{nt + old, u}, Prec: -1})
		s.Start = u - nt
		return Fault{"unproductive", "new start u_start : oldstart u_start"}
	case 4: // behind nullable symbols: u : N1 N2 u where N* nullable
		n1 := add("u_null")
		s.Rules = append(s.Rules, Rule{LHS: n1 - nt, Prec: -1})
		u := add("u_behind")
		s.Rules = append(s.Rules, Rule{LHS: u - nt, RHS: []int{n1, n1, u}, Prec: -1})
		// a second alternative that is also unproductive
		s.Rules = append(s.Rules, Rule{LHS: u - nt, RHS: []int{u, n1}, Prec: -1})
		useIn(u)
		return Fault{"unproductive", "u_behind : u_null u_null u_behind | u_behind u_null ; u_null : (nullable siblings)"}
	case 5: // every alternative needs an unproductive one
		a := add("u_deep")
		b := add("u_deeper")
		tt := rapid.IntRange(0, nt-1).Draw(t, "t")
		s.Rules = append(s.Rules, Rule{LHS: a - nt, RHS: []int{tt, b, tt}, Prec: -1})
		s.Rules = append(s.Rules, Rule{LHS: a - nt, RHS: []int{b}, Prec: -1})
		s.Rules = append(s.Rules, Rule{LHS: b - nt, RHS: []int{b, tt}, Prec: -1})
		s.Rules = append(s.Rules, Rule{LHS: b - nt, RHS: []int{a, a}, Prec: -1})
		useIn(a)
		return Fault{"unproductive", "u_deep : T u_deeper T | u_deeper ; u_deeper : u_deeper T | u_deep u_deep"}
	default: // undefined symbol: a nonterminal that is used but has no rule and is no token
		_ = nn
		u := add(fmt.Sprintf("undefined_%d", rapid.IntRange(0, 9).Draw(t, "un")))
		useIn(u)
		return Fault{"undefined", "a symbol is used in a rule but is neither a declared token nor defined by a rule"}
	}
}
