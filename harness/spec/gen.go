package spec

import (
	"fmt"

	"pgregory.net/rapid"
)

// Default texts. The prologue is what C16 allows: it names the package and
// imports fmt; the epilogue defines GetToken.
const (
	DefPrologue = "\npackage main\n\nimport \"fmt\"\n\nvar _ = fmt.Sprint\n"
	DefUnion    = "\n\tval int\n"
	DefEpilogue = "\nfunc GetToken(input string, valTy *ValType, pos *int) int {\n\trem := 7 % 3 // 100%\n\treturn rem - 2\n}\n"
)

func base() *Spec {
	return &Spec{Prologue: DefPrologue, Union: DefUnion, Epilogue: DefEpilogue}
}

// Cfg bounds the random grammar families.
type Cfg struct {
	MaxT, MaxN, MaxR, MaxLen int
	Lits                     bool // allow character literals among the terminals
}

var simpleLits = []string{"+", "*", "(", ")", "-", "x", "=", ",", "!", "a"}

func mkTerms(t *rapid.T, n int, lits bool) []Term {
	var out []Term
	for i := 0; i < n; i++ {
		if lits && rapid.IntRange(0, 2).Draw(t, "lit") == 0 {
			decl := "token"
			if rapid.Bool().Draw(t, "use") {
				decl = "use"
			}
			out = append(out, Term{Lit: simpleLits[i%len(simpleLits)], Decl: decl})
		} else {
			out = append(out, Term{Name: fmt.Sprintf("T%d", i), Decl: "token"})
		}
	}
	return out
}

func mkNTs(n int) []NonTerm {
	var out []NonTerm
	for i := 0; i < n; i++ {
		out = append(out, NonTerm{Name: fmt.Sprintf("n%d", i)})
	}
	return out
}

// fixUse makes sure a literal declared "use" really occurs in a rule;
// otherwise it is declared with %token.
func (s *Spec) fixUse() {
	used := make([]bool, len(s.Terms))
	for _, r := range s.Rules {
		for _, x := range r.RHS {
			if x < len(s.Terms) {
				used[x] = true
			}
		}
	}
	inPrec := make([]bool, len(s.Terms))
	for _, l := range s.Prec {
		for _, x := range l.Terms {
			inPrec[x] = true
		}
	}
	for i := range s.Terms {
		tm := &s.Terms[i]
		if tm.Decl == "use" && (!used[i] || !tm.IsLit()) {
			tm.Decl = "token"
		}
		if tm.Decl == "prec" && !inPrec[i] {
			tm.Decl = "token"
		}
		if tm.Decl == "prec" || tm.Decl == "use" {
			if tm.Decl == "use" {
				tm.Tag = ""
			}
			tm.Code = 0
		}
	}
	s.syncPrecTags()
}

// Uniform draws random rules; every nonterminal gets at least one rule, so the
// grammar is syntactically fine but may be unproductive (rejected by yaccgo).
func Uniform(t *rapid.T, c Cfg) *Spec {
	s := base()
	nt := rapid.IntRange(1, c.MaxT).Draw(t, "nT")
	nn := rapid.IntRange(1, c.MaxN).Draw(t, "nN")
	s.Terms = mkTerms(t, nt, c.Lits)
	s.NTs = mkNTs(nn)
	nr := rapid.IntRange(nn, max(nn, c.MaxR)).Draw(t, "nR")
	for i := 0; i < nr; i++ {
		lhs := i
		if i >= nn {
			lhs = rapid.IntRange(0, nn-1).Draw(t, "lhs")
		}
		l := rapid.IntRange(0, c.MaxLen).Draw(t, "len")
		rhs := make([]int, l)
		for j := range rhs {
			rhs[j] = rapid.IntRange(0, nt+nn-1).Draw(t, "sym")
		}
		s.Rules = append(s.Rules, Rule{LHS: lhs, RHS: rhs, Prec: -1})
	}
	s.Start = rapid.IntRange(0, nn-1).Draw(t, "start")
	s.fixUse()
	return s
}

// Productive is Uniform plus a terminal-only base rule per nonterminal, so
// that every nonterminal derives a terminal string: accepted by construction.
func Productive(t *rapid.T, c Cfg) *Spec {
	s := Uniform(t, c)
	nt := len(s.Terms)
	for i := range s.NTs {
		l := rapid.IntRange(0, 2).Draw(t, "baselen")
		rhs := make([]int, l)
		for j := range rhs {
			rhs[j] = rapid.IntRange(0, nt-1).Draw(t, "baset")
		}
		s.Rules = append(s.Rules, Rule{LHS: i, RHS: rhs, Prec: -1})
	}
	// shuffle rule order a little: move the base rules to random positions
	perm := rapid.Permutation(seq(len(s.Rules))).Draw(t, "perm")
	rules := make([]Rule, len(s.Rules))
	for i, p := range perm {
		rules[i] = s.Rules[p]
	}
	s.Rules = rules
	s.fixUse()
	return s
}

// Nullable: every nonterminal has an epsilon rule and right-hand sides are
// mostly nonterminals (reaches nullable cycles and non-trivial reads/includes SCCs).
func Nullable(t *rapid.T) *Spec {
	s := base()
	nt := rapid.IntRange(2, 6).Draw(t, "nT")
	nn := rapid.IntRange(2, 5).Draw(t, "nN")
	s.Terms = mkTerms(t, nt, false)
	s.NTs = mkNTs(nn)
	for i := 0; i < nn; i++ {
		if rapid.IntRange(0, 5).Draw(t, "eps") > 0 {
			s.Rules = append(s.Rules, Rule{LHS: i, Prec: -1})
		} else {
			s.Rules = append(s.Rules, Rule{LHS: i, RHS: []int{rapid.IntRange(0, nt-1).Draw(t, "bt")}, Prec: -1})
		}
	}
	nr := rapid.IntRange(1, 8).Draw(t, "nR")
	for i := 0; i < nr; i++ {
		lhs := rapid.IntRange(0, nn-1).Draw(t, "lhs")
		l := rapid.IntRange(1, 5).Draw(t, "len")
		rhs := make([]int, l)
		for j := range rhs {
			if rapid.IntRange(0, 2).Draw(t, "isnt") > 0 {
				rhs[j] = nt + rapid.IntRange(0, nn-1).Draw(t, "nt")
			} else {
				rhs[j] = rapid.IntRange(0, nt-1).Draw(t, "t")
			}
		}
		s.Rules = append(s.Rules, Rule{LHS: lhs, RHS: rhs, Prec: -1})
	}
	// nonterminals that are nullable only through other nullable nonterminals
	nc := rapid.IntRange(0, 2).Draw(t, "ncomposite")
	for i := 0; i < nc; i++ {
		l := rapid.IntRange(1, 3).Draw(t, "clen")
		rhs := make([]int, l)
		for j := range rhs {
			rhs[j] = nt + rapid.IntRange(0, nn-1).Draw(t, "cnt")
		}
		s.Rules = append(s.Rules, Rule{LHS: rapid.IntRange(0, nn-1).Draw(t, "clhs"), RHS: rhs, Prec: -1})
	}
	// the order of the rules in the file must not matter for nullability:
	// often put the empty rules after their uses
	if rapid.Bool().Draw(t, "shuffle") {
		perm := rapid.Permutation(seq(len(s.Rules))).Draw(t, "nperm")
		rules := make([]Rule, len(s.Rules))
		for i, p := range perm {
			rules[i] = s.Rules[p]
		}
		s.Rules = rules
	} else if rapid.Bool().Draw(t, "reverse") {
		for i, j := 0, len(s.Rules)-1; i < j; i, j = i+1, j-1 {
			s.Rules[i], s.Rules[j] = s.Rules[j], s.Rules[i]
		}
	}
	s.Start = rapid.IntRange(0, nn-1).Draw(t, "start")
	return s
}

func seq(n int) []int {
	o := make([]int, n)
	for i := range o {
		o[i] = i
	}
	return o
}

// ---------------------------------------------------------------------
// textbook grammars that separate the LR classes

type tb struct {
	name  string
	terms []string
	nts   []string
	rules [][]string // lhs, rhs...
}

var textbook = []tb{
	{"slr-not-lr0-expr", []string{"+", "*", "(", ")", "id"}, []string{"E", "T", "F"},
		[][]string{{"E", "E", "+", "T"}, {"E", "T"}, {"T", "T", "*", "F"}, {"T", "F"}, {"F", "(", "E", ")"}, {"F", "id"}}},
	{"lalr-not-slr-assign", []string{"=", "*", "id"}, []string{"S", "L", "R"},
		[][]string{{"S", "L", "=", "R"}, {"S", "R"}, {"L", "*", "R"}, {"L", "id"}, {"R", "L"}}},
	{"lr1-not-lalr", []string{"a", "b", "c", "d", "e"}, []string{"S", "A", "B"},
		[][]string{{"S", "a", "A", "d"}, {"S", "b", "B", "d"}, {"S", "a", "B", "e"}, {"S", "b", "A", "e"}, {"A", "c"}, {"B", "c"}}},
	{"lalr-not-slr-2", []string{"a", "b", "c", "d"}, []string{"S", "A"},
		[][]string{{"S", "A", "a"}, {"S", "b", "A", "c"}, {"S", "d", "c"}, {"S", "b", "d", "a"}, {"A", "d"}}},
	// DeRemer & Pennello: LALR(1) but not NQLALR(1)
	{"lalr-not-nqlalr", []string{"a", "b", "c", "d", "g"}, []string{"S", "A", "B"},
		[][]string{{"S", "a", "g", "d"}, {"S", "a", "A", "c"}, {"S", "b", "A", "d"}, {"S", "b", "g", "c"}, {"A", "B"}, {"B", "g"}}},
	{"lr0-parens", []string{"(", ")", "x", ","}, []string{"S", "L"},
		[][]string{{"S", "(", "L", ")"}, {"S", "x"}, {"L", "S"}, {"L", "L", ",", "S"}}},
	{"nullable-lalr", []string{"a", "b", "c"}, []string{"S", "A", "B"},
		[][]string{{"S", "A", "B", "c"}, {"A", "a"}, {"A"}, {"B", "b"}, {"B"}}},
	{"lalr-not-slr-3", []string{"a", "b", "c"}, []string{"S", "X", "Y"},
		[][]string{{"S", "X", "a"}, {"S", "b", "X", "c"}, {"S", "Y", "c"}, {"S", "b", "Y", "a"}, {"X", "Y"}, {"Y", "b", "b"}}},
	// two nonterminals with the same handle, told apart only by exact lookahead;
	// an over-approximated lookahead creates a spurious reduce/reduce conflict
	{"same-handle", []string{"x", "d", "e"}, []string{"S", "A", "Y", "C"},
		[][]string{{"S", "A", "C", "e"}, {"S", "Y", "e"}, {"A", "x"}, {"Y", "x"}, {"C", "d"}}},
	{"same-handle-nullable", []string{"x", "b", "y"}, []string{"S", "I", "O", "J"},
		[][]string{{"S", "I", "O", "x"}, {"S", "J", "y"}, {"I", "b"}, {"J", "b"}, {"O"}, {"O", "b"}}},
	{"decl-vs-expr", []string{"i", "n", ";", "="}, []string{"P", "D", "E", "T", "V", "N"},
		[][]string{{"P", "D"}, {"P", "E"}, {"D", "T", "N", ";"}, {"E", "V", ";"}, {"E", "V", "=", "V", ";"}, {"T", "i"}, {"V", "i"}, {"N", "n"}}},
	// T is nullable only through X and Y, which are defined after it
	{"nullable-through-later-rules", []string{"a", "b", "p", "x", "y"}, []string{"S", "P", "T", "X", "Y"},
		[][]string{{"S", "a", "P", "T", "b"}, {"P", "p"}, {"T", "X", "Y"}, {"X"}, {"X", "x"}, {"Y"}, {"Y", "y"}}},
	{"dangling-else", []string{"i", "e", "x"}, []string{"S"},
		[][]string{{"S", "i", "S"}, {"S", "i", "S", "e", "S"}, {"S", "x"}}},
	{"ambiguous-expr", []string{"+", "*", "n"}, []string{"E"},
		[][]string{{"E", "E", "+", "E"}, {"E", "E", "*", "E"}, {"E", "n"}}},
	{"right-rec-list", []string{"a", ";"}, []string{"L", "I"},
		[][]string{{"L", "I"}, {"L", "I", ";", "L"}, {"I", "a"}, {"I"}}},
	{"lalr-nullable-prefix", []string{"a", "b", "d"}, []string{"S", "A", "B", "C"},
		[][]string{{"S", "A", "C", "a"}, {"S", "B", "C", "b"}, {"A"}, {"B"}, {"C", "d"}, {"C"}}},
}

// Separator instantiates one textbook grammar with fresh names, optionally
// embedded under an extra start rule and/or with a duplicated terminal.
func Separator(t *rapid.T) (*Spec, string) {
	k := rapid.IntRange(0, len(textbook)-1).Draw(t, "which")
	g := textbook[k]
	s := base()
	asLit := rapid.Bool().Draw(t, "aslit")
	tix := map[string]int{}
	for i, n := range g.terms {
		tix[n] = i
		if asLit && len(n) == 1 {
			decl := "use"
			if rapid.Bool().Draw(t, "decl") {
				decl = "token"
			}
			s.Terms = append(s.Terms, Term{Lit: n, Decl: decl})
		} else {
			s.Terms = append(s.Terms, Term{Name: fmt.Sprintf("T%d", i), Decl: "token"})
		}
	}
	nix := map[string]int{}
	for i, n := range g.nts {
		nix[n] = i
		s.NTs = append(s.NTs, NonTerm{Name: fmt.Sprintf("n%d", i)})
	}
	nt := len(s.Terms)
	for _, r := range g.rules {
		ru := Rule{LHS: nix[r[0]], Prec: -1}
		for _, x := range r[1:] {
			if i, ok := tix[x]; ok {
				ru.RHS = append(ru.RHS, i)
			} else {
				ru.RHS = append(ru.RHS, nt+nix[x])
			}
		}
		s.Rules = append(s.Rules, ru)
	}
	s.Start = 0
	switch rapid.IntRange(0, 3).Draw(t, "embed") {
	case 1:
		// new start: W -> S | W S   (keeps LALR-ness for most; classification is done by the reference anyway)
		s.NTs = append(s.NTs, NonTerm{Name: "w0"})
		w := nt + len(s.NTs) - 1
		s.Rules = append(s.Rules, Rule{LHS: len(s.NTs) - 1, RHS: []int{nt + 0}, Prec: -1})
		if rapid.Bool().Draw(t, "list") {
			s.Terms = append(s.Terms, Term{Name: "SEP", Decl: "token"})
			// terminals were appended: nonterminal indices shift by one
			shiftNT(s, nt)
			nt++
			w++
			s.Rules = append(s.Rules, Rule{LHS: len(s.NTs) - 1, RHS: []int{w, nt - 1, nt + 0}, Prec: -1})
		}
		s.Start = len(s.NTs) - 1
	case 2:
		// permute rule order
		perm := rapid.Permutation(seq(len(s.Rules))).Draw(t, "perm")
		rules := make([]Rule, len(s.Rules))
		for i, p := range perm {
			rules[i] = s.Rules[p]
		}
		s.Rules = rules
	}
	s.fixUse()
	return s, g.name
}

// shiftNT renumbers nonterminal references after one terminal was appended
// (old terminal count oldNT).
func shiftNT(s *Spec, oldNT int) {
	for i := range s.Rules {
		for j, x := range s.Rules[i].RHS {
			if x >= oldNT {
				s.Rules[i].RHS[j] = x + 1
			}
		}
	}
}

// ---------------------------------------------------------------------
// conflict-free by construction: lists, options, nesting, statements

// LALRFamily builds a grammar from LALR(1)-safe building blocks. The
// reference still classifies it; the constructive part only makes
// conflict-free grammars likely.
func LALRFamily(t *rapid.T) *Spec {
	s := base()
	addT := func(name string) int {
		s.Terms = append(s.Terms, Term{Name: name, Decl: "token"})
		return len(s.Terms) - 1
	}
	type ntRef int
	var pendingRules []struct {
		lhs ntRef
		rhs []interface{}
	}
	addN := func(name string) ntRef {
		s.NTs = append(s.NTs, NonTerm{Name: name})
		return ntRef(len(s.NTs) - 1)
	}
	rule := func(lhs ntRef, rhs ...interface{}) {
		pendingRules = append(pendingRules, struct {
			lhs ntRef
			rhs []interface{}
		}{lhs, rhs})
	}
	nAtoms := rapid.IntRange(1, 3).Draw(t, "atoms")
	var atoms []int
	for i := 0; i < nAtoms; i++ {
		atoms = append(atoms, addT(fmt.Sprintf("A%d", i)))
	}
	// item: atom | '(' list ')'
	item := addN("item")
	for _, a := range atoms {
		rule(item, a)
	}
	list := addN("list")
	top := list
	switch rapid.IntRange(0, 4).Draw(t, "listkind") {
	case 0: // left recursive, separator
		sep := addT("SEP")
		rule(list, item)
		rule(list, list, sep, item)
	case 1: // right recursive, separator
		sep := addT("SEP")
		rule(list, item)
		rule(list, item, sep, list)
	case 2: // possibly empty, left recursive, no separator
		rule(list)
		rule(list, list, item)
	case 3: // non-empty, right recursive without separator
		rule(list, item)
		rule(list, item, list)
	case 4: // optional trailing terminator
		term := addT("END")
		opt := addN("optend")
		rule(opt)
		rule(opt, term)
		body := addN("body")
		rule(body, item)
		rule(body, body, item)
		rule(list, body, opt)
	}
	if rapid.Bool().Draw(t, "nest") {
		lp, rp := addT("LP"), addT("RP")
		rule(item, lp, list, rp)
	}
	if rapid.Bool().Draw(t, "stmt") {
		kw := addT("KW")
		semi := addT("SEMI")
		stmt := addN("stmt")
		rule(stmt, kw, list, semi)
		rule(stmt, list, semi)
		prog := addN("prog")
		if rapid.Bool().Draw(t, "progempty") {
			rule(prog)
		} else {
			rule(prog, stmt)
		}
		rule(prog, prog, stmt)
		top = prog
	}
	if rapid.Bool().Draw(t, "optprefix") {
		pre := addT("PRE")
		op := addN("optpre")
		rule(op)
		rule(op, pre)
		nt2 := addN("top")
		rule(nt2, op, top)
		top = nt2
	}
	nt := len(s.Terms)
	for _, pr := range pendingRules {
		r := Rule{LHS: int(pr.lhs), Prec: -1}
		for _, x := range pr.rhs {
			switch v := x.(type) {
			case int:
				r.RHS = append(r.RHS, v)
			case ntRef:
				r.RHS = append(r.RHS, nt+int(v))
			}
		}
		s.Rules = append(s.Rules, r)
	}
	s.Start = int(top)
	return s
}

// ---------------------------------------------------------------------
// precedence decoration of an arbitrary spec

// WithPrec adds random precedence lines over a subset of the terminals and
// random %prec annotations.
func WithPrec(t *rapid.T, s *Spec) {
	n := len(s.Terms)
	perm := rapid.Permutation(seq(n)).Draw(t, "pperm")
	nl := rapid.IntRange(0, 3).Draw(t, "levels")
	k := 0
	for i := 0; i < nl && k < n; i++ {
		cnt := rapid.IntRange(1, 2).Draw(t, "n")
		lv := PrecLevel{Assoc: rapid.SampledFrom([]string{"left", "right", "nonassoc", "precedence"}).Draw(t, "assoc")}
		for j := 0; j < cnt && k < n; j++ {
			lv.Terms = append(lv.Terms, perm[k])
			// a named token that is on a precedence line may be declared only there
			if rapid.IntRange(0, 3).Draw(t, "preconly") == 0 {
				s.Terms[perm[k]].Decl = "prec"
			}
			k++
		}
		s.Prec = append(s.Prec, lv)
	}
	for i := range s.Rules {
		if k > 0 && rapid.IntRange(0, 4).Draw(t, "useprec") == 0 {
			s.Rules[i].Prec = perm[rapid.IntRange(0, k-1).Draw(t, "pt")]
		} else if n > 0 && rapid.IntRange(0, 14).Draw(t, "precplain") == 0 {
			// %prec naming a token that is on no precedence line is legal: the
			// rule then simply has no precedence
			s.Rules[i].Prec = rapid.IntRange(0, n-1).Draw(t, "ptany")
		}
	}
	s.fixUse()
}

// SameHandle builds a grammar in which 2-3 nonterminals share one handle and
// are distinguished by what follows them (a terminal, or a nonterminal -
// nullable or not - and then a terminal), optionally after distinct prefixes.
// Whether the result is LALR(1) is decided by the reference.
func SameHandle(t *rapid.T) *Spec {
	s := base()
	addT := func() int {
		s.Terms = append(s.Terms, Term{Name: fmt.Sprintf("T%d", len(s.Terms)), Decl: "token"})
		return len(s.Terms) - 1
	}
	type pend struct {
		lhs int
		rhs []interface{}
	}
	var rules []pend
	addN := func(name string) int {
		s.NTs = append(s.NTs, NonTerm{Name: name})
		return len(s.NTs) - 1
	}
	type ntr int
	start := addN("s")
	k := rapid.IntRange(2, 3).Draw(t, "k")
	hl := rapid.IntRange(1, 2).Draw(t, "handlelen")
	var handle []interface{}
	for i := 0; i < hl; i++ {
		handle = append(handle, addT())
	}
	shared := addT() // a terminal that may follow several of them
	for i := 0; i < k; i++ {
		a := addN(fmt.Sprintf("a%d", i))
		rules = append(rules, pend{a, handle})
		var rhs []interface{}
		if rapid.IntRange(0, 2).Draw(t, "prefix") == 0 {
			rhs = append(rhs, addT())
		}
		rhs = append(rhs, ntr(a))
		switch rapid.IntRange(0, 3).Draw(t, "follow") {
		case 0:
			rhs = append(rhs, addT())
		case 1:
			c := addN(fmt.Sprintf("c%d", i))
			rules = append(rules, pend{c, []interface{}{addT()}})
			rhs = append(rhs, ntr(c), shared)
		case 2:
			o := addN(fmt.Sprintf("o%d", i))
			rules = append(rules, pend{o, nil})
			rules = append(rules, pend{o, []interface{}{addT()}})
			rhs = append(rhs, ntr(o), addT())
		default:
			rhs = append(rhs, shared)
		}
		rules = append(rules, pend{start, rhs})
	}
	nt := len(s.Terms)
	for _, r := range rules {
		ru := Rule{LHS: r.lhs, Prec: -1}
		for _, x := range r.rhs {
			switch v := x.(type) {
			case int:
				ru.RHS = append(ru.RHS, v)
			case ntr:
				ru.RHS = append(ru.RHS, nt+int(v))
			}
		}
		s.Rules = append(s.Rules, ru)
	}
	perm := rapid.Permutation(seq(len(s.Rules))).Draw(t, "perm")
	out := make([]Rule, len(s.Rules))
	for i, p := range perm {
		out[i] = s.Rules[p]
	}
	s.Rules = out
	s.Start = start
	return s
}

// BigAuto builds a grammar whose automaton has a few hundred states: one
// alternative per distinct word of length 3-4 over 4-6 terminals (a trie), so
// that state numbers pass 100 and 200.
func BigAuto(t *rapid.T) *Spec {
	s := base()
	nt := rapid.IntRange(4, 6).Draw(t, "nT")
	s.Terms = mkTerms(t, nt, false)
	s.NTs = []NonTerm{{Name: "top"}, {Name: "w"}}
	nw := rapid.IntRange(70, 130).Draw(t, "nwords")
	seen := map[string]bool{}
	for i := 0; i < nw; i++ {
		l := rapid.IntRange(3, 4).Draw(t, "wlen")
		rhs := make([]int, l)
		for j := range rhs {
			rhs[j] = rapid.IntRange(0, nt-1).Draw(t, "wt")
		}
		k := fmt.Sprint(rhs)
		if seen[k] {
			continue
		}
		seen[k] = true
		s.Rules = append(s.Rules, Rule{LHS: 1, RHS: rhs, Prec: -1})
	}
	if rapid.Bool().Draw(t, "list") {
		s.Rules = append(s.Rules, Rule{LHS: 0, RHS: []int{nt + 1}, Prec: -1}, Rule{LHS: 0, RHS: []int{nt + 0, nt + 1}, Prec: -1})
	} else {
		s.Rules = append(s.Rules, Rule{LHS: 0, RHS: []int{nt + 1}, Prec: -1})
	}
	s.Start = 0
	return s
}

// ManySyms builds a grammar with more than 64 symbols: 45-60 keyword
// terminals and 8-20 nonterminals; the start state has a transition on every
// keyword, so symbol ids that differ by 64 meet in one state.
func ManySyms(t *rapid.T) *Spec {
	s := base()
	nt := rapid.IntRange(45, 60).Draw(t, "nT")
	nn := rapid.IntRange(8, 32).Draw(t, "nN")
	for i := 0; i < nt; i++ {
		s.Terms = append(s.Terms, Term{Name: fmt.Sprintf("K%02d", i), Decl: "token"})
	}
	s.NTs = append(s.NTs, NonTerm{Name: "top"})
	for i := 1; i < nn; i++ {
		s.NTs = append(s.NTs, NonTerm{Name: fmt.Sprintf("b%02d", i)})
	}
	// every body nonterminal: one or two short terminal rules
	for i := 1; i < nn; i++ {
		nr := rapid.IntRange(1, 2).Draw(t, "nbody")
		for r := 0; r < nr; r++ {
			l := rapid.IntRange(1, 2).Draw(t, "blen")
			rhs := make([]int, l)
			for j := range rhs {
				rhs[j] = rapid.IntRange(0, nt-1).Draw(t, "bt")
			}
			s.Rules = append(s.Rules, Rule{LHS: i, RHS: rhs, Prec: -1})
		}
	}
	// some bodies continue another body: b_j : b_k K_m (the same item then
	// occurs in many states, with different neighbours)
	for i := 1; i < nn; i++ {
		if nn > 2 && rapid.IntRange(0, 2).Draw(t, "chain") == 0 {
			k := rapid.IntRange(1, nn-2).Draw(t, "chainto")
			if k >= i {
				k++
			}
			s.Rules = append(s.Rules, Rule{LHS: i, RHS: []int{nt + k, rapid.IntRange(0, nt-1).Draw(t, "chaint")}, Prec: -1})
		}
	}
	// top : K_i body_j  for (nearly) every keyword, and top : b_j K_i for some
	skip := rapid.IntRange(0, 4).Draw(t, "skip")
	for i := 0; i < nt; i++ {
		if skip > 0 && i > 0 && rapid.IntRange(0, 4).Draw(t, "skipkw") < skip-1 {
			continue
		}
		b := nt + 1 + rapid.IntRange(0, nn-2).Draw(t, "body")
		s.Rules = append(s.Rules, Rule{LHS: 0, RHS: []int{i, b}, Prec: -1})
	}
	for i := 1; i < nn; i++ {
		if rapid.Bool().Draw(t, "ntfirst") {
			s.Rules = append(s.Rules, Rule{LHS: 0, RHS: []int{nt + i, rapid.IntRange(0, nt-1).Draw(t, "after")}, Prec: -1})
		}
	}
	s.Start = 0
	return s
}

// HugeRule adds one rule with 260-400 right-hand-side symbols to a small
// productive grammar ("rules of every length").
func HugeRule(t *rapid.T) *Spec {
	s := Productive(t, Cfg{MaxT: 3, MaxN: 2, MaxR: 3, MaxLen: 2, Lits: false})
	k := rapid.IntRange(260, 400).Draw(t, "hugelen")
	rhs := make([]int, k)
	nt := len(s.Terms)
	for j := range rhs {
		if rapid.IntRange(0, 40).Draw(t, "hnt") == 0 {
			rhs[j] = nt + rapid.IntRange(0, len(s.NTs)-1).Draw(t, "hn")
		} else {
			rhs[j] = rapid.IntRange(0, nt-1).Draw(t, "ht")
		}
	}
	// a long rule that ends in a nonterminal (right recursion over 300
	// symbols) is where walking right parts through the automaton costs most
	if rapid.IntRange(0, 2).Draw(t, "htail") == 0 {
		rhs[k-1] = nt + rapid.IntRange(0, len(s.NTs)-1).Draw(t, "htailnt")
	}
	s.Rules = append(s.Rules, Rule{LHS: s.Start, RHS: rhs, Prec: -1})
	return s
}

// Blowup builds the classic grammar whose LR(0) automaton has exponentially
// many states: S : X1 | ... | Xn ; Xi : 'z' | c Xi for every letter c but the
// i-th (the states are the subsets of {1..n}). yaccgo must stop at its
// 2000-state limit with a diagnostic.
func Blowup(t *rapid.T) *Spec {
	s := base()
	n := rapid.IntRange(11, 14).Draw(t, "n")
	for i := 0; i < n; i++ {
		s.Terms = append(s.Terms, Term{Name: fmt.Sprintf("L%02d", i), Decl: "token"})
	}
	s.Terms = append(s.Terms, Term{Name: "Z", Decl: "token"})
	nt := len(s.Terms)
	s.NTs = []NonTerm{{Name: "s"}}
	for i := 0; i < n; i++ {
		s.NTs = append(s.NTs, NonTerm{Name: fmt.Sprintf("x%02d", i)})
		s.Rules = append(s.Rules, Rule{LHS: 0, RHS: []int{nt + 1 + i}, Prec: -1})
	}
	for i := 0; i < n; i++ {
		s.Rules = append(s.Rules, Rule{LHS: 1 + i, RHS: []int{n}, Prec: -1})
		for c := 0; c < n; c++ {
			if c != i {
				s.Rules = append(s.Rules, Rule{LHS: 1 + i, RHS: []int{c, nt + 1 + i}, Prec: -1})
			}
		}
	}
	s.Start = 0
	return s
}
