package spec

import (
	"fmt"

	"pgregory.net/rapid"
)

// OpTable describes an operator grammar  e : e op e | pre e | '(' e ')' | ATOM
// together with what the reference evaluator needs.
type OpTable struct {
	Atom   int         `json:"atom"` // terminal index
	LP, RP int         // parentheses (terminal indices), -1 if absent
	Binary []OpInfo    `json:"binary"` // binary operators
	Prefix []OpInfo    `json:"prefix"` // prefix operators (rule precedence may come from %prec)
	Levels []PrecLevel `json:"levels"`
}

type OpInfo struct {
	Term  int    `json:"term"`     // terminal index of the operator token
	Level int    `json:"level"`    // precedence level of the *rule* (0 = none)
	Assoc string `json:"assoc"`    // associativity of that level
	TokLv int    `json:"toklevel"` // precedence level of the token itself (0 = none)
	TokAs string `json:"tokassoc"`
	Text  string `json:"text"`
}

var opChars = []string{"+", "-", "*", "/", "^", "&", "=", "<", ">", "!", "~", "?", "@", "#", ":", ";", ","}

// Operator draws an operator grammar with 1-5 precedence levels, any
// associativity per level, 1-3 binary operators per level, optional binary
// operators without declared precedence, prefix operators via %prec
// pseudo-tokens or their own token's level, and parentheses. Semantic values
// are fully parenthesised strings.
func Operator(t *rapid.T) (*Spec, *OpTable) {
	s := base()
	s.Fields = []string{"str"}
	ot := &OpTable{LP: -1, RP: -1}
	addT := func(tm Term) int {
		s.Terms = append(s.Terms, tm)
		return len(s.Terms) - 1
	}
	ot.Atom = addT(Term{Name: "NUM", Decl: "token", Tag: "str"})
	chars := rapid.Permutation(opChars).Draw(t, "opchars")
	ci := 0
	nextOp := func() int {
		c := chars[ci%len(chars)]
		ci++
		return addT(Term{Lit: c, Decl: "token"})
	}
	nl := rapid.IntRange(1, 5).Draw(t, "levels")
	type lv struct {
		assoc string
		terms []int
	}
	var levels []lv
	for i := 0; i < nl; i++ {
		l := lv{assoc: rapid.SampledFrom([]string{"left", "right", "nonassoc"}).Draw(t, "assoc")}
		nb := rapid.IntRange(1, 3).Draw(t, "nbin")
		for j := 0; j < nb && ci < len(chars)-2; j++ {
			l.terms = append(l.terms, nextOp())
		}
		levels = append(levels, l)
	}
	// binary operators without declared precedence
	var noprec []int
	if rapid.IntRange(0, 3).Draw(t, "noprec") == 0 && ci < len(chars)-2 {
		noprec = append(noprec, nextOp())
	}
	// prefix operators
	type pre struct {
		term  int
		level int // index into levels (+1), 0 none
	}
	var prefixes []pre
	np := rapid.IntRange(0, 2).Draw(t, "nprefix")
	for i := 0; i < np; i++ {
		switch rapid.IntRange(0, 2).Draw(t, "prekind") {
		case 0:
			// reuse a binary operator's token as prefix, precedence from a pseudo token on a new highest level
			if len(levels) > 0 && len(levels[0].terms) > 0 {
				op := levels[rapid.IntRange(0, len(levels)-1).Draw(t, "prelv")].terms[0]
				dup := false
				for _, p := range prefixes {
					dup = dup || p.term == op
				}
				if dup {
					continue
				}
				pseudo := addT(Term{Name: fmt.Sprintf("UPREC%d", i), Decl: "prec"})
				as := rapid.SampledFrom([]string{"left", "right", "nonassoc"}).Draw(t, "preassoc")
				at := rapid.IntRange(0, len(levels)).Draw(t, "preat")
				levels = append(levels[:at:at], append([]lv{{assoc: as, terms: []int{pseudo}}}, levels[at:]...)...)
				prefixes = append(prefixes, pre{term: op, level: -(pseudo + 1)})
			}
		case 1:
			// own token placed on an existing or new level
			if ci < len(chars)-2 {
				op := nextOp()
				at := rapid.IntRange(0, len(levels)-1).Draw(t, "preown")
				levels[at].terms = append(levels[at].terms, op)
				prefixes = append(prefixes, pre{term: op, level: 0})
			}
		case 2:
			// prefix operator without any precedence
			if ci < len(chars)-2 {
				op := nextOp()
				prefixes = append(prefixes, pre{term: op, level: 0})
			}
		}
	}
	if rapid.IntRange(0, 4).Draw(t, "parens") > 0 {
		ot.LP = addT(Term{Lit: "(", Decl: "token"})
		ot.RP = addT(Term{Lit: ")", Decl: "token"})
	}
	for _, l := range levels {
		s.Prec = append(s.Prec, PrecLevel{Assoc: l.assoc, Terms: l.terms})
	}
	ot.Levels = s.Prec
	s.NTs = []NonTerm{{Name: "e", Tag: "str"}}
	nt := len(s.Terms)
	e := nt
	lit := func(x int) string {
		if s.Terms[x].IsLit() {
			return s.Terms[x].Lit
		}
		return s.Terms[x].Name
	}
	bin := func(op int) {
		s.Rules = append(s.Rules, Rule{LHS: 0, RHS: []int{e, op, e}, Prec: -1,
			Sem: &Sem{Kind: "cat", Parts: []SemPart{{Text: "("}, {Pos: 1}, {Text: lit(op)}, {Pos: 3}, {Text: ")"}}}})
		lvl, as := s.PrecOf(op)
		ot.Binary = append(ot.Binary, OpInfo{Term: op, Level: lvl, Assoc: as, TokLv: lvl, TokAs: as, Text: lit(op)})
	}
	for _, l := range levels {
		for _, op := range l.terms {
			if s.Terms[op].Decl == "prec" {
				continue // pseudo token
			}
			isPrefixOnly := false
			for _, p := range prefixes {
				if p.term == op && p.level == 0 {
					isPrefixOnly = true
				}
			}
			if !isPrefixOnly {
				bin(op)
			}
		}
	}
	for _, op := range noprec {
		bin(op)
	}
	for _, p := range prefixes {
		r := Rule{LHS: 0, RHS: []int{p.term, e}, Prec: -1,
			Sem: &Sem{Kind: "cat", Parts: []SemPart{{Text: "("}, {Text: lit(p.term)}, {Pos: 2}, {Text: ")"}}}}
		oi := OpInfo{Term: p.term, Text: lit(p.term)}
		oi.TokLv, oi.TokAs = s.PrecOf(p.term)
		if p.level < 0 {
			r.Prec = -p.level - 1
			oi.Level, oi.Assoc = s.PrecOf(r.Prec)
		} else {
			oi.Level, oi.Assoc = s.PrecOf(p.term)
		}
		s.Rules = append(s.Rules, r)
		ot.Prefix = append(ot.Prefix, oi)
	}
	if ot.LP >= 0 {
		s.Rules = append(s.Rules, Rule{LHS: 0, RHS: []int{ot.LP, e, ot.RP}, Prec: -1,
			Sem: &Sem{Kind: "cat", Parts: []SemPart{{Text: "["}, {Pos: 2}, {Text: "]"}}}})
	}
	s.Rules = append(s.Rules, Rule{LHS: 0, RHS: []int{ot.Atom}, Prec: -1, Sem: &Sem{Kind: "cat", Parts: []SemPart{{Pos: 1}}}})
	// rule order is irrelevant for S/R resolution: shuffle
	perm := rapid.Permutation(seq(len(s.Rules))).Draw(t, "ruleperm")
	rules := make([]Rule, len(s.Rules))
	for i, p := range perm {
		rules[i] = s.Rules[p]
	}
	s.Rules = rules
	s.Start = 0
	return s, ot
}

// DrawExpr draws a token sequence over the operator table: mostly
// well-formed expressions (incl. long same-level chains) with occasional damage.
func DrawExpr(t *rapid.T, ot *OpTable) []int {
	var out []int
	var gen func(depth int)
	gen = func(depth int) {
		k := rapid.IntRange(0, 9).Draw(t, "shape")
		switch {
		case depth <= 0 || k <= 2:
			out = append(out, ot.Atom)
		case k <= 6 && len(ot.Binary) > 0:
			n := rapid.IntRange(1, 4).Draw(t, "chain")
			gen(depth - 1)
			same := rapid.Bool().Draw(t, "samelevel")
			first := ot.Binary[rapid.IntRange(0, len(ot.Binary)-1).Draw(t, "op")]
			for i := 0; i < n; i++ {
				op := first
				if !same {
					op = ot.Binary[rapid.IntRange(0, len(ot.Binary)-1).Draw(t, "op2")]
				}
				out = append(out, op.Term)
				gen(depth - 1)
			}
		case k == 7 && len(ot.Prefix) > 0:
			out = append(out, ot.Prefix[rapid.IntRange(0, len(ot.Prefix)-1).Draw(t, "pre")].Term)
			gen(depth - 1)
		case k == 8 && ot.LP >= 0:
			out = append(out, ot.LP)
			gen(depth - 1)
			out = append(out, ot.RP)
		default:
			out = append(out, ot.Atom)
		}
	}
	gen(rapid.IntRange(1, 4).Draw(t, "depth"))
	if rapid.IntRange(0, 7).Draw(t, "damage") == 0 && len(out) > 0 {
		p := rapid.IntRange(0, len(out)-1).Draw(t, "dpos")
		if rapid.Bool().Draw(t, "ddel") {
			out = append(out[:p], out[p+1:]...)
		} else {
			out = append(out[:p:p], append([]int{out[rapid.IntRange(0, len(out)-1).Draw(t, "dsrc")]}, out[p:]...)...)
		}
	}
	if len(out) > 40 {
		out = out[:40]
	}
	return out
}
