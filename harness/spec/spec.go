// Package spec defines the abstract grammar specification that the harness
// generates, its textual renderings (canonical and random layout) and the
// conversion to the reference CFG.
package spec

import (
	"fmt"
	"strings"

	"verifharness/ref"
)

// Term is a terminal. Exactly one of Name / Lit is used.
type Term struct {
	Name string `json:"name,omitempty"` // identifier
	Lit  string `json:"lit,omitempty"`  // one character, for a 'c' literal
	Code int    `json:"code,omitempty"` // explicit token number, 0 = automatic
	Tag  string `json:"tag,omitempty"`
	// Decl: "token" (a %token line), "prec" (only named on a precedence line),
	// "use" (literal that only occurs in rules)
	Decl string `json:"decl"`
	// Redecl: declared once without and once more with its explicit number
	// (as examples/*.y do: %token <val> NUM ... %token NUM 100)
	Redecl bool `json:"redecl,omitempty"`
	// RedeclMode (when not 0) generalises Redecl: the token is declared twice,
	// 1: "%token <tag> NAME" then "%token NAME code" (= Redecl),
	// 2: "%token NAME code" then "%token <tag> NAME",
	// 3: "%token NAME" then "%token <tag> NAME code".
	// RedeclLate puts the second declaration after all other %token lines
	// instead of directly after the first one's line.
	RedeclMode int  `json:"redeclmode,omitempty"`
	RedeclLate bool `json:"redecllate,omitempty"`
	// TagViaType: the value tag is declared with a separate "%type <tag> NAME"
	// line instead of "%token <tag> NAME"
	TagViaType bool `json:"tagviatype,omitempty"`
}

func (t Term) IsLit() bool { return t.Lit != "" }

// Text is how the terminal is written in the grammar file.
func (t Term) Text() string {
	if t.IsLit() {
		if t.Lit == "'" {
			return `'\''`
		}
		return "'" + t.Lit + "'"
	}
	return t.Name
}

// YName is the name yaccgo uses internally for the terminal.
func (t Term) YName() string {
	if t.IsLit() {
		return "$operator" + t.Lit
	}
	return t.Name
}

type NonTerm struct {
	Name string `json:"name"`
	Tag  string `json:"tag,omitempty"`
}

type Rule struct {
	LHS    int    `json:"lhs"`              // index into NTs
	RHS    []int  `json:"rhs"`              // < len(Terms): terminal; else len(Terms)+nt
	Prec   int    `json:"prec"`             // -1 or terminal index named by %prec
	Action string `json:"action,omitempty"` // text including the braces, "" = none
	Sem    *Sem   `json:"sem,omitempty"`    // abstract semantic action (tier G)
	// NoAct: the driver file gives this rule no action at all (its reductions
	// are then not recorded and its value is whatever the parser defaults to)
	NoAct bool `json:"noact,omitempty"`
	// Plain: the driver file writes the action the way a user would,
	// "{ $$ = ... }", without the recording call (the reduction is then not
	// recorded; the value still is what C07 speaks of)
	Plain bool `json:"plain,omitempty"`
}

// Sem is an abstract semantic action whose text is the same in Go and
// TypeScript. Kind "lin": $$ = (C0 + sum Coef*$Pos) % SemMod over integer
// fields. Kind "cat": $$ = concatenation of string literals and $Pos values.
// Kind "copy": $$ = $Pos (Terms[0].Pos), both of the same type.
// Kind "none": no assignment (the lhs carries no tag).
type Sem struct {
	Kind  string    `json:"kind"`
	C0    int       `json:"c0,omitempty"`
	Terms []SemTerm `json:"terms,omitempty"`
	Parts []SemPart `json:"parts,omitempty"`
}

type SemTerm struct {
	Coef int `json:"coef"`
	Pos  int `json:"pos"` // 1-based rhs position
}

type SemPart struct {
	Pos  int    `json:"pos,omitempty"` // 0 = literal text
	Text string `json:"text,omitempty"`
}

const SemMod = 1000003

// Text renders the assignment statement ("" for kind none).
func (m *Sem) Text() string {
	if m == nil {
		return ""
	}
	switch m.Kind {
	case "copy":
		return fmt.Sprintf("$$ = $%d", m.Terms[0].Pos)
	case "lin":
		e := fmt.Sprint(m.C0)
		for _, t := range m.Terms {
			e += fmt.Sprintf(" + %d*$%d", t.Coef, t.Pos)
		}
		return fmt.Sprintf("$$ = (%s) %% %d", e, SemMod)
	case "cat":
		var ps []string
		for _, p := range m.Parts {
			if p.Pos > 0 {
				ps = append(ps, fmt.Sprintf("$%d", p.Pos))
			} else {
				ps = append(ps, fmt.Sprintf("%q", p.Text))
			}
		}
		if len(ps) == 0 {
			ps = []string{`""`}
		}
		return "$$ = " + strings.Join(ps, " + ")
	}
	return ""
}

type PrecLevel struct {
	Assoc string `json:"assoc"` // left right nonassoc precedence
	Terms []int  `json:"terms"`
	// Tag: "%left <tag> symbols": the value tag of the tokens that are
	// declared by this line (Decl "prec"); tokens declared before keep theirs
	Tag string `json:"tag,omitempty"`
}

type Field struct {
	Name string `json:"name"`
}

type Spec struct {
	Terms    []Term      `json:"terms"`
	NTs      []NonTerm   `json:"nts"`
	Rules    []Rule      `json:"rules"`
	Start    int         `json:"start"`
	Prec     []PrecLevel `json:"prec,omitempty"`
	Prologue string      `json:"prologue"` // text between %{ and %}
	// Prologue2: when non-empty, a second %{ %} block after the first; yaccgo
	// concatenates the blocks
	Prologue2 string `json:"prologue2,omitempty"`
	// TwoPrologues: SetLang also writes a second, language-specific block
	TwoPrologues bool   `json:"twoprologues,omitempty"`
	Union        string `json:"union"`    // text between %union { and }
	Epilogue     string `json:"epilogue"` // text after the second %%
	NoUnion      bool   `json:"nounion,omitempty"`
	// OmitStart: write no %start line; only meaningful when the start symbol is
	// literally named "start" (the documented default)
	OmitStart bool `json:"omitstart,omitempty"`
	// EOFAlias: when non-empty, "%token <EOFAlias> -1" is declared: a named
	// constant for the end marker, as examples/e.y does; not a grammar symbol
	EOFAlias string `json:"eofalias,omitempty"`
	// OneLineUnion: the %union body is written on one line, "{ f0 int; f1 int }"
	OneLineUnion bool     `json:"onelineunion,omitempty"`
	Fields       []string `json:"fields,omitempty"` // abstract union fields (integers)
}

func (s *Spec) NT() int { return len(s.Terms) }

func (s *Spec) SymName(x int) string {
	if x < len(s.Terms) {
		return s.Terms[x].Text()
	}
	return s.NTs[x-len(s.Terms)].Name
}

// SymYName is the internal yaccgo name of symbol x.
func (s *Spec) SymYName(x int) string {
	if x < len(s.Terms) {
		return s.Terms[x].YName()
	}
	return s.NTs[x-len(s.Terms)].Name
}

func (s *Spec) SymTag(x int) string {
	if x < len(s.Terms) {
		return s.Terms[x].Tag
	}
	return s.NTs[x-len(s.Terms)].Tag
}

// CFG converts to the reference grammar; rule i+1 of the CFG is s.Rules[i].
func (s *Spec) CFG() *ref.CFG {
	g := &ref.CFG{NT: len(s.Terms), NN: len(s.NTs)}
	for _, t := range s.Terms {
		g.Names = append(g.Names, t.Text())
	}
	for _, n := range s.NTs {
		g.Names = append(g.Names, n.Name)
	}
	g.Rules = append(g.Rules, ref.Rule{LHS: -1, RHS: []int{g.NT + s.Start}})
	for _, r := range s.Rules {
		g.Rules = append(g.Rules, ref.Rule{LHS: g.NT + r.LHS, RHS: append([]int{}, r.RHS...)})
	}
	return g
}

// PrecOf returns level (1-based, 0 = none) and associativity of terminal t.
func (s *Spec) PrecOf(t int) (int, string) {
	for li, l := range s.Prec {
		for _, x := range l.Terms {
			if x == t {
				return li + 1, l.Assoc
			}
		}
	}
	return 0, ""
}

func (s *Spec) Clone() *Spec {
	c := *s
	c.Terms = append([]Term{}, s.Terms...)
	c.NTs = append([]NonTerm{}, s.NTs...)
	c.Rules = make([]Rule, len(s.Rules))
	for i, r := range s.Rules {
		c.Rules[i] = r
		c.Rules[i].RHS = append([]int{}, r.RHS...)
	}
	c.Prec = make([]PrecLevel, len(s.Prec))
	for i, p := range s.Prec {
		c.Prec[i] = PrecLevel{Assoc: p.Assoc, Terms: append([]int{}, p.Terms...), Tag: p.Tag}
	}
	return &c
}

// ----------------------------------------------------------------------
// rendering

type tokKind int

const (
	kWord  tokKind = iota // identifier, number, directive: needs separation from another word
	kPunct                // : | ; < > literal, action block: may touch its neighbours
	kRaw                  // emitted verbatim with mandatory whitespace after (%} and union)
)

type tok struct {
	text string
	kind tokKind
	// nl: a line break is customary after this token in the canonical layout
	nl bool
}

// Layout supplies layout decisions. Choice(n) returns a number in [0,n).
// The canonical layout always answers 0.
type Layout interface {
	Choice(n int) int
}

type canon struct{}

func (canon) Choice(int) int { return 0 }

// Canonical is the fixed, conventional layout.
var Canonical Layout = canon{}

// SliceLayout replays a list of drawn bytes cyclically (so that it shrinks
// towards the canonical layout: all zeros).
type SliceLayout struct {
	Data []int
	pos  int
}

func (l *SliceLayout) Choice(n int) int {
	if len(l.Data) == 0 || n <= 1 {
		return 0
	}
	v := l.Data[l.pos%len(l.Data)]
	l.pos++
	if v < 0 {
		v = -v
	}
	return v % n
}

// RenderOpts select structural variations that do not change the meaning.
type RenderOpts struct {
	Layout Layout
	// Stats, when non-nil, is filled with layout features used.
	Stats *LayoutStats
}

type LayoutStats struct {
	Comments     int
	OmittedSemi  int
	NoNewlineGap int // rule boundaries without a newline
	EmptySeps    int
	JoinedAlts   int
	SplitDecls   int
}

var commentBodies = []string{
	" c ", " x y z ", " %token X ", " { ", " } ", " s : A ; ", " ' ", " \" ", " %% ", " /* ", " // ", " * ", " %{ ", " a*b ", " a/b ",
	// comment shapes the C-style lexers get wrong
	"", "*", " c *", "/", "/ c ", "**",
}

// Render produces the grammar file text.
func (s *Spec) Render(o RenderOpts) string {
	L := o.Layout
	if L == nil {
		L = Canonical
	}
	st := o.Stats
	if st == nil {
		st = &LayoutStats{}
	}
	var toks []tok
	w := func(t string) { toks = append(toks, tok{text: t, kind: kWord}) }
	p := func(t string) { toks = append(toks, tok{text: t, kind: kPunct}) }
	nl := func() {
		if len(toks) > 0 {
			toks[len(toks)-1].nl = true
		}
	}
	symTok := func(x int) {
		if x < len(s.Terms) && s.Terms[x].IsLit() {
			p(s.Terms[x].Text())
		} else {
			w(s.SymName(x))
		}
	}
	termTok := func(t Term) {
		if t.IsLit() {
			p(t.Text())
		} else {
			w(t.Name)
		}
	}
	// prologue
	toks = append(toks, tok{text: "%{" + s.Prologue + "%}", kind: kRaw, nl: true})
	if s.Prologue2 != "" {
		toks = append(toks, tok{text: "%{" + s.Prologue2 + "%}", kind: kRaw, nl: true})
	}
	if !s.NoUnion {
		toks = append(toks, tok{text: "%union {" + s.Union + "}", kind: kPunct, nl: true})
	}
	declTokens := func() {
		// %token lines: group consecutive terminals with the same tag on one
		// line or split them, by layout choice.
		var pending []Term
		var late []Term
		mode := func(t Term) int {
			if t.IsLit() {
				return 0
			}
			if t.RedeclMode != 0 {
				return t.RedeclMode
			}
			if t.Redecl && t.Code != 0 {
				return 1
			}
			return 0
		}
		// the tag shown by the first declaration
		firstTag := func(t Term) string {
			if m := mode(t); m == 2 || m == 3 {
				return ""
			}
			return t.Tag
		}
		second := func(t Term) {
			m := mode(t)
			w("%token")
			if m != 1 && t.Tag != "" && !t.TagViaType {
				p("<")
				w(t.Tag)
				p(">")
			}
			w(t.Name)
			if m != 2 && t.Code != 0 {
				w(fmt.Sprint(t.Code))
			}
			nl()
		}
		flush := func() {
			if len(pending) == 0 {
				return
			}
			w("%token")
			if firstTag(pending[0]) != "" && !pending[0].TagViaType {
				p("<")
				w(pending[0].Tag)
				p(">")
			}
			for _, t := range pending {
				termTok(t)
				if m := mode(t); t.Code != 0 && !t.IsLit() && (m == 0 || m == 2) {
					w(fmt.Sprint(t.Code))
				}
			}
			nl()
			for _, t := range pending {
				if mode(t) != 0 {
					if t.RedeclLate {
						late = append(late, t)
					} else {
						second(t)
					}
				}
			}
			pending = nil
		}
		for _, t := range s.Terms {
			if t.Decl != "token" {
				continue
			}
			// yaccgo reads a character literal that directly follows a token name
			// as that token's alias (Parser.go:parseTokendef), so a literal never
			// follows a name on the same %token line
			aliasPos := len(pending) > 0 && t.IsLit() && !pending[len(pending)-1].IsLit()
			if len(pending) > 0 && (firstTag(pending[0]) != firstTag(t) || pending[0].TagViaType || t.TagViaType || aliasPos || L.Choice(2) == 0) {
				if firstTag(pending[0]) == firstTag(t) {
					st.SplitDecls++
				}
				flush()
			}
			pending = append(pending, t)
		}
		flush()
		for _, t := range late {
			second(t)
		}
		if s.EOFAlias != "" {
			w("%token")
			w(s.EOFAlias)
			w("-1")
			nl()
		}
	}
	declPrec := func() {
		// precedence lines
		for _, l := range s.Prec {
			w("%" + l.Assoc)
			if l.Tag != "" {
				p("<")
				w(l.Tag)
				p(">")
			}
			for _, t := range l.Terms {
				termTok(s.Terms[t])
			}
			nl()
		}
	}
	declTypes := func() {
		// %type lines (one per nonterminal, or grouped by tag)
		var pn []NonTerm
		flushN := func() {
			if len(pn) == 0 {
				return
			}
			w("%type")
			p("<")
			w(pn[0].Tag)
			p(">")
			for _, n := range pn {
				w(n.Name)
			}
			nl()
			pn = nil
		}
		for _, n := range s.NTs {
			if n.Tag == "" {
				continue
			}
			if len(pn) > 0 && (pn[0].Tag != n.Tag || L.Choice(2) == 0) {
				flushN()
			}
			pn = append(pn, n)
		}
		flushN()
	}
	declTokenTypes := func() {
		for _, t := range s.Terms {
			if t.TagViaType && t.Tag != "" && !t.IsLit() && t.Decl == "token" {
				w("%type")
				p("<")
				w(t.Tag)
				p(">")
				w(t.Name)
				nl()
			}
		}
	}
	declStart := func() {
		if !(s.OmitStart && s.NTs[s.Start].Name == "start") {
			w("%start")
			w(s.NTs[s.Start].Name)
			nl()
		}
	}
	// the order of the declaration blocks is layout as well. A precedence line
	// may come before the %token lines unless it carries a tag and names a
	// token that a %token line declares (the line's tag would then reach it).
	precFirstOK := true
	for _, l := range s.Prec {
		for _, t := range l.Terms {
			if l.Tag != "" && s.Terms[t].Decl == "token" {
				precFirstOK = false
			}
		}
	}
	order := []func(){declTokens, declPrec, declTypes, declTokenTypes, declStart}
	switch L.Choice(6) {
	case 1:
		order = []func(){declStart, declTokens, declPrec, declTypes, declTokenTypes}
	case 2:
		order = []func(){declTypes, declTokens, declPrec, declTokenTypes, declStart}
	case 3:
		order = []func(){declStart, declTypes, declTokens, declPrec, declTokenTypes}
	case 4:
		if precFirstOK {
			order = []func(){declPrec, declTokens, declTypes, declTokenTypes, declStart}
		}
	case 5:
		if precFirstOK {
			order = []func(){declTypes, declStart, declPrec, declTokens, declTokenTypes}
		} else {
			order = []func(){declTypes, declStart, declTokens, declPrec, declTokenTypes}
		}
	}
	for _, f := range order {
		f()
	}
	p("%%")
	nl()
	// rules: consecutive rules with the same lhs may be joined with '|'
	for i := 0; i < len(s.Rules); i++ {
		r := s.Rules[i]
		joined := i > 0 && s.Rules[i-1].LHS == r.LHS && L.Choice(2) == 0
		if joined {
			st.JoinedAlts++
			p("|")
		} else {
			if i > 0 {
				// terminate the previous rule
				if L.Choice(3) != 1 {
					p(";")
				} else {
					st.OmittedSemi++
				}
				toks[len(toks)-1].nl = true
				toks = append(toks, tok{text: "", kind: kPunct, nl: false}) // boundary marker
			}
			w(s.NTs[r.LHS].Name)
			p(":")
		}
		for _, x := range r.RHS {
			symTok(x)
		}
		if r.Prec >= 0 {
			w("%prec")
			termTok(s.Terms[r.Prec])
		}
		if r.Action != "" {
			p(r.Action)
		}
		nl()
	}
	if len(s.Rules) > 0 {
		if L.Choice(3) != 1 {
			p(";")
			nl()
		} else {
			st.OmittedSemi++
		}
	}
	p("%%")
	// assemble
	var b strings.Builder
	for i, t := range toks {
		if t.text == "" && t.kind == kPunct {
			continue // boundary marker
		}
		b.WriteString(t.text)
		if i == len(toks)-1 {
			break
		}
		// find next real token
		j := i + 1
		boundary := false
		for j < len(toks) && toks[j].text == "" {
			boundary = true
			j++
		}
		next := toks[j]
		must := t.kind == kRaw || (t.kind == kWord && next.kind == kWord)
		// a number directly before an identifier or vice versa is covered by kWord
		sep := pickSep(L, t.nl, must, st)
		if t.kind == kRaw && (sep == "" || !strings.ContainsAny(sep[:1], " \t\n")) {
			// the lexer only recognises %} when whitespace (or EOF) follows
			sep = "\n" + sep
		}
		if boundary && !strings.Contains(sep, "\n") {
			st.NoNewlineGap++
		}
		b.WriteString(sep)
	}
	b.WriteString(s.Epilogue)
	return b.String()
}

func pickSep(L Layout, wantNL bool, must bool, st *LayoutStats) string {
	c := L.Choice(12)
	base := " "
	if wantNL {
		base = "\n"
	}
	switch c {
	case 0:
		return base
	case 1:
		return " "
	case 2:
		return "\n"
	case 3:
		return "\t"
	case 4:
		return "  \n\n\t "
	case 5:
		st.Comments++
		return " /*" + commentBodies[L.Choice(len(commentBodies))] + "*/ "
	case 6:
		st.Comments++
		return " //" + strings.ReplaceAll(commentBodies[L.Choice(len(commentBodies))], "\n", " ") + "\n"
	case 7:
		st.Comments++
		return "/*" + commentBodies[L.Choice(len(commentBodies))] + "*/"
	case 8:
		st.Comments++
		return "//" + commentBodies[L.Choice(len(commentBodies))] + "\n"
	case 9, 10:
		if !must {
			st.EmptySeps++
			return ""
		}
		return base
	default:
		return "\n\n"
	}
}

// TagPrecLines gives some precedence lines a value tag (chosen by pick) and
// sets the tag of the tokens declared only on such a line accordingly.
// Character literals declared there get the tag as well.
func (s *Spec) TagPrecLines(choose func() bool, pick func() string) {
	for li := range s.Prec {
		l := &s.Prec[li]
		l.Tag = ""
		if choose() {
			l.Tag = pick()
		}
	}
	s.syncPrecTags()
}

// syncPrecTags: a token that no %token line declares is declared by the
// precedence line that names it and has that line's tag.
func (s *Spec) syncPrecTags() {
	for _, l := range s.Prec {
		for _, t := range l.Terms {
			if s.Terms[t].Decl != "token" {
				s.Terms[t].Tag = l.Tag
			}
		}
	}
}
