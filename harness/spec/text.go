package spec

import (
	"fmt"

	"pgregory.net/rapid"
)

var actionPool = []string{
	"{ $$ = $1 }",
	"{}",
	"{ }",
	"{\n\t\t$$ = 1\n\t}",
	"{ if x { y() } else { z() } }",
	"{ a := []int{1, 2}; _ = a }",
	"{ /* comment in action */ $$ = 0 }",
	"{ // line comment in action\n }",
	"{ s := \"%% | ; : %token\"; _ = s }",
	"{{{}}}",
	"{ $$ = $1 + $2 * $$ }",
	"{ fmt.Println(\"x\") }",
	"{\n%left\n}",
}

var prologuePool = []string{
	"\npackage main\n",
	"\npackage main\n\nimport \"fmt\"\n\nvar _ = fmt.Sprint\n",
	"",
	" ",
	"\n// %% in the prologue { } %token\nvar x = map[string]int{\"a\": 1}\n",
	"\n\tconst c = '%'\n\tvar s = \"%}x\"\n",
}

var unionPool = []string{
	"\n\tval int\n",
	" val int ",
	"\n\tval int\n\tstr string\n\tn struct { a, b int }\n",
	" ",
	"\n\t// comment\n\tf0 int\n\tf1 int\n",
}

var epiloguePool = []string{
	"\nfunc GetToken(input string, valTy *ValType, pos *int) int {\n\treturn -1\n}\n",
	"",
	"\n",
	" trailing text on the same line as the separator\nmore : text ; | { } %% %token\n",
	"\n// '' \" unbalanced { quotes in the epilogue are nobody's business\n",
	"\nx : y ;\n",
}

// WithTexts gives the spec random actions, prologue, union and epilogue
// texts (opaque strings for the front end).
func WithTexts(t *rapid.T, s *Spec) {
	for i := range s.Rules {
		if rapid.IntRange(0, 2).Draw(t, "hasaction") > 0 {
			a := actionPool[rapid.IntRange(0, len(actionPool)-1).Draw(t, "action")]
			if rapid.IntRange(0, 4).Draw(t, "tagaction") == 0 {
				a = fmt.Sprintf("{ /* rule %d */ }", i)
			}
			s.Rules[i].Action = a
		}
	}
	s.Prologue = prologuePool[rapid.IntRange(0, len(prologuePool)-1).Draw(t, "prologue")]
	s.Prologue2 = ""
	if rapid.IntRange(0, 3).Draw(t, "twoblocks") == 0 {
		s.Prologue2 = rapid.SampledFrom([]string{"var second int", "\nvar second int\n", " x ", "\n// second block %% { }\n"}).Draw(t, "prologue2")
	}
	s.Union = unionPool[rapid.IntRange(0, len(unionPool)-1).Draw(t, "union")]
	s.Epilogue = epiloguePool[rapid.IntRange(0, len(epiloguePool)-1).Draw(t, "epilogue")]
}

// DrawLayout draws the layout decision list.
func DrawLayout(t *rapid.T) *SliceLayout {
	n := rapid.IntRange(0, 48).Draw(t, "layoutlen")
	d := make([]int, n)
	for i := range d {
		d[i] = rapid.IntRange(0, 255).Draw(t, "l")
	}
	return &SliceLayout{Data: d}
}
