package spec

import (
	"fmt"
	"strings"

	"pgregory.net/rapid"
)

// Identifier pools. Token names become constants of the user's own package in
// the generated file, so they avoid Go/TypeScript keywords, predeclared names
// and the names used by the emitted skeleton. Nonterminal names never become
// identifiers of the target language, so anything the lexer accepts goes.
var TermNamePool = []string{
	"NUM", "IDENT", "tok_a", "T_9", "Plus", "MINUS_OP", "left_paren", "right1", "token2", "type_",
	"start1", "precedence_x", "union_a", "nonassoc_", "prec2", "Ünï", "变量", "Ωmega", "_u", "__x",
	"A1b2", "VeryLongTokenNameThatGoesOnAndOnAndOnForQuiteAWhile_0123456789", "lefty", "types", "KW_IF", "x",
}

var NTNamePool = []string{
	"start", "expr", "stmt_list", "e", "E", "type", "func", "left", "token", "x1", "Ünï_nt", "名", "prec",
	"union", "error", "main", "Parser", "if", "right", "nonassoc", "precedence", "_", "a_very_long_nonterminal_name_0123456789_abcdefghijklmnopqrstuvwxyz", "S",
}

// LitPool: every printable ASCII character the lexer can read as 'c' (all but
// the backslash, which the lexer only accepts in the form '\”).
func LitPool() []string {
	var out []string
	for c := 32; c < 127; c++ {
		if c == '\\' {
			continue
		}
		out = append(out, string(rune(c)))
	}
	return out
}

// HostileLits: characters with a meaning in some layer of the output.
var HostileLits = []string{"%", "\"", "'", "`", "|", "{", "}", "<", ">", ",", "*", "/", "$", "#", "&", ";", ":"}

// WithNames renames terminals and nonterminals from the pools and replaces
// literals by random printable characters.
func WithNames(t *rapid.T, s *Spec) {
	tp := rapid.Permutation(TermNamePool).Draw(t, "tnames")
	np := rapid.Permutation(NTNamePool).Draw(t, "nnames")
	lp := rapid.Permutation(LitPool()).Draw(t, "lits")
	if rapid.Bool().Draw(t, "hostile") {
		// characters that are special in Go/TS string literals, Printf
		// formats, comments or DOT record labels come first
		lp = append(rapid.Permutation(HostileLits).Draw(t, "hostilelits"), lp...)
		seen := map[string]bool{}
		var u []string
		for _, x := range lp {
			if !seen[x] {
				seen[x] = true
				u = append(u, x)
			}
		}
		lp = u
	}
	// a literal is numbered by its character code: it must not be a character
	// whose code the specification already gives to a named token ("provided
	// the user's explicit numbers are distinct")
	taken := map[int]bool{}
	for _, tm := range s.Terms {
		if !tm.IsLit() && tm.Code != 0 {
			taken[tm.Code] = true
		}
	}
	{
		var free []string
		for _, x := range lp {
			if !taken[int(x[0])] { // yaccgo numbers a literal by its first byte
				free = append(free, x)
			}
		}
		lp = free
	}
	li, ti := 0, 0
	for i := range s.Terms {
		if s.Terms[i].IsLit() {
			s.Terms[i].Lit = lp[li]
			li++
		} else {
			s.Terms[i].Name = tp[ti%len(tp)]
			if ti >= len(tp) {
				s.Terms[i].Name += fmt.Sprint(ti)
			}
			ti++
		}
	}
	for i := range s.NTs {
		s.NTs[i].Name = np[i%len(np)]
		if i >= len(np) {
			s.NTs[i].Name += fmt.Sprint(i)
		}
	}
	// "without %start the start symbol must be named start": sometimes make it so
	if rapid.IntRange(0, 3).Draw(t, "defaultstart") == 0 {
		for i := range s.NTs {
			if s.NTs[i].Name == "start" {
				s.NTs[i].Name = "start_"
			}
		}
		s.NTs[s.Start].Name = "start"
		s.OmitStart = rapid.Bool().Draw(t, "omitstart")
	}
}

// WithDecls decorates the declarations: union fields, value tags, explicit
// token numbers (positive, distinct, outside the printable-ASCII range used by
// literals), and re-declaration of a token to add its number.
func WithDecls(t *rapid.T, s *Spec) {
	nf := rapid.IntRange(1, 4).Draw(t, "nfields")
	s.Fields = nil
	for i := 0; i < nf; i++ {
		s.Fields = append(s.Fields, fmt.Sprintf("f%d", i))
	}
	s.SetLang("go")
	pick := func() string { return s.Fields[rapid.IntRange(0, nf-1).Draw(t, "field")] }
	used := map[int]bool{}
	// character codes of the literals in use: an explicit number must differ
	litCode := map[int]bool{}
	for _, tm := range s.Terms {
		if tm.IsLit() {
			litCode[int(tm.Lit[0])] = true // first byte, as yaccgo numbers it
		}
	}
	for i := range s.Terms {
		tm := &s.Terms[i]
		if tm.Decl != "token" {
			continue
		}
		if rapid.IntRange(0, 2).Draw(t, "tag") == 0 {
			tm.Tag = pick()
			// the tag of a token may also be given by a %type line
			if !tm.IsLit() && rapid.IntRange(0, 3).Draw(t, "tagviatype") == 0 {
				tm.TagViaType = true
			}
		}
		if !tm.IsLit() && rapid.IntRange(0, 2).Draw(t, "code") == 0 {
			var code int
			for {
				switch rapid.IntRange(0, 3).Draw(t, "coderange") {
				case 0:
					code = rapid.IntRange(1, 31).Draw(t, "codelow")
				case 1:
					code = rapid.IntRange(127, 400).Draw(t, "codemid")
				default:
					code = rapid.IntRange(401, 70000).Draw(t, "codehigh")
				}
				if !used[code] && !litCode[code] {
					break
				}
			}
			used[code] = true
			tm.Code = code
		}
		if !tm.IsLit() && (tm.Code != 0 || tm.Tag != "") && !tm.TagViaType {
			// declared twice, the second declaration adding the number, the tag
			// or both (examples/*.y use the first form)
			switch rapid.IntRange(0, 7).Draw(t, "redecl") {
			case 0:
				if tm.Code != 0 {
					tm.Redecl = true
				}
			case 1:
				tm.RedeclMode = 2
			case 2:
				tm.RedeclMode = 3
			}
			if tm.Redecl || tm.RedeclMode != 0 {
				tm.RedeclLate = rapid.Bool().Draw(t, "redecllate")
			}
		}
	}
	s.TagPrecLines(func() bool { return rapid.IntRange(0, 2).Draw(t, "prectag") == 0 }, pick)
	for i := range s.NTs {
		if rapid.IntRange(0, 2).Draw(t, "nttag") == 0 {
			s.NTs[i].Tag = pick()
		}
	}
	if rapid.IntRange(0, 4).Draw(t, "eofalias") == 0 {
		s.EOFAlias = "EOFTOK"
	}
}

// SetLang renders prologue, union and epilogue for the target language from
// the abstract field list (minimal texts: package clause / GetToken only).
func (s *Spec) SetLang(lang string) {
	fields := s.Fields
	if len(fields) == 0 {
		fields = []string{"val"}
	}
	var u strings.Builder
	u.WriteString("\n")
	if s.OneLineUnion {
		// one-line body: "%union { f0 int; f1 int }"
		u.Reset()
		u.WriteString(" ")
		for _, f := range fields {
			if lang == "ts" {
				fmt.Fprintf(&u, "%s :number; ", f)
			} else {
				fmt.Fprintf(&u, "%s int; ", f)
			}
		}
	}
	if lang == "ts" {
		for _, f := range fields {
			if s.OneLineUnion {
				break
			}
			fmt.Fprintf(&u, "\t%s :number;\n", f)
		}
		s.Prologue = "\n\"use strict\";\n"
		s.Prologue2 = ""
		if s.TwoPrologues {
			s.Prologue = "\n\"use strict\";\nlet vFirstBlock = 1\n"
			s.Prologue2 = "\nlet vSecondBlock = vFirstBlock + 1\n"
		}
		s.Union = u.String()
		defer func() {
			if s.EOFAlias != "" {
				s.Epilogue += "const vEndMarkerAlias :number = " + s.EOFAlias + "\n"
			}
		}()
		s.Epilogue = "\nfunction GetToken(input :string, model:{ValType :ValType, pos :number}) :number {\n\tconst rem = 7 % 3 // 100%\n\treturn rem - 2\n}\n"
		return
	}
	for _, f := range fields {
		if s.OneLineUnion {
			break
		}
		fmt.Fprintf(&u, "\t%s int\n", f)
	}
	s.Prologue = DefPrologue
	s.Prologue2 = ""
	if s.TwoPrologues {
		// each block is written the usual way: on lines of its own
		s.Prologue = "\npackage main\n\nimport \"fmt\"\n\nvar _ = fmt.Sprint\n"
		s.Prologue2 = "\nvar vSecondBlock = 1\n"
	}
	s.Union = u.String()
	s.Epilogue = DefEpilogue
	if s.EOFAlias != "" {
		s.Epilogue += "\nvar _ = " + s.EOFAlias + "\n"
	}
}
