package spec

import (
	"fmt"

	"pgregory.net/rapid"
)

// WithSem gives the spec 2-4 integer union fields, random tags on terminals
// and nonterminals (some stay untagged) and a random linear action for every
// rule whose lhs is tagged, over the tagged rhs positions. Coefficients within
// a rule are pairwise distinct primes so that reading a wrong slot changes
// the result.
func WithSem(t *rapid.T, s *Spec) {
	nf := rapid.IntRange(2, 4).Draw(t, "nfields")
	s.Fields = nil
	for i := 0; i < nf; i++ {
		s.Fields = append(s.Fields, fmt.Sprintf("f%d", i))
	}
	pick := func() string { return s.Fields[rapid.IntRange(0, nf-1).Draw(t, "field")] }
	for i := range s.Terms {
		s.Terms[i].Tag = ""
		if s.Terms[i].Decl == "token" && rapid.IntRange(0, 3).Draw(t, "ttag") > 0 {
			s.Terms[i].Tag = pick()
		}
	}
	// "%left <tag> symbols": tokens declared by a precedence line take its tag
	s.TagPrecLines(func() bool { return rapid.Bool().Draw(t, "prectag") }, pick)
	for i := range s.NTs {
		s.NTs[i].Tag = ""
		if rapid.IntRange(0, 4).Draw(t, "ntag") > 0 {
			s.NTs[i].Tag = pick()
		}
	}
	// the start symbol is tagged so that the parser's result is observable
	if s.NTs[s.Start].Tag == "" {
		s.NTs[s.Start].Tag = pick()
	}
	AssignLinSem(t, s)
}

var primes = []int{3, 5, 7, 11, 13, 17, 19, 23, 29, 31, 37, 41, 43, 47}

// AssignLinSem (re)computes the linear actions from the current tags.
func AssignLinSem(t *rapid.T, s *Spec) {
	for i := range s.Rules {
		r := &s.Rules[i]
		if s.NTs[r.LHS].Tag == "" {
			r.Sem = &Sem{Kind: "none"}
			continue
		}
		m := &Sem{Kind: "lin", C0: rapid.IntRange(1, 999).Draw(t, "c0")}
		perm := rapid.Permutation(primes).Draw(t, "coefs")
		k := 0
		for j, x := range r.RHS {
			if s.SymTag(x) != "" && rapid.IntRange(0, 5).Draw(t, "usepos") > 0 {
				m.Terms = append(m.Terms, SemTerm{Coef: perm[k%len(perm)], Pos: j + 1})
				k++
			}
		}
		r.Sem = m
	}
}

// MakePlain turns every action into a plain one ("{ $$ = ... }" without the
// recording call) and many of them into the pure forwarding "$$ = $k" that
// grammars are full of (always between integer fields, often different ones).
func MakePlain(t *rapid.T, s *Spec) {
	for i := range s.Rules {
		r := &s.Rules[i]
		r.Plain = true
		if s.NTs[r.LHS].Tag == "" {
			continue
		}
		var cand []int
		for j, x := range r.RHS {
			if s.SymTag(x) != "" {
				cand = append(cand, j+1)
			}
		}
		if len(cand) == 0 {
			continue
		}
		p := 2 // one in p+1 keeps its linear action
		if len(r.RHS) == 1 {
			p = 4
		}
		if rapid.IntRange(0, p).Draw(t, "forward") > 0 {
			k := cand[rapid.IntRange(0, len(cand)-1).Draw(t, "fwdpos")]
			r.Sem = &Sem{Kind: "copy", Terms: []SemTerm{{Coef: 1, Pos: k}}}
		}
	}
}
