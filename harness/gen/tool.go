// Package gen runs yaccgo as its users do (tier G): the CLI built from /repo,
// the emitted files compiled and executed unchanged.
package gen

import (
	"bytes"
	"context"
	"fmt"
	"os"
	"os/exec"
	"path/filepath"
	"sort"
	"strings"
	"time"
)

// Variant is one output variant of the generator.
type Variant struct {
	Name string   // go, go-u, go-o, go-ou, ts
	Lang string   // go | typescript
	Opts []string // CLI flags
}

var (
	VGo   = Variant{"go", "go", nil}
	VGoU  = Variant{"go-u", "go", []string{"-u"}}
	VGoO  = Variant{"go-o", "go", []string{"-o"}}
	VGoOU = Variant{"go-ou", "go", []string{"-o", "-u"}}
	VTs   = Variant{"ts", "typescript", nil}
	// AllVariants in a fixed order.
	AllVariants = []Variant{VGo, VGoU, VGoO, VGoOU, VTs}
	GoVariants  = []Variant{VGo, VGoU, VGoO, VGoOU}
)

func (v Variant) Object() bool { return v.Name == "go-o" || v.Name == "go-ou" }
func (v Variant) IsGo() bool   { return v.Lang == "go" }

func VariantByName(n string) (Variant, bool) {
	for _, v := range AllVariants {
		if v.Name == n {
			return v, true
		}
	}
	return Variant{}, false
}

// BuildCLI builds the yaccgo command from the /repo working tree (through the
// harness module's replace directive, so /repo/go.sum is never touched).
func BuildCLI(harnessDir, out string) error {
	cmd := exec.Command("go", "build", "-tags", "verif", "-o", out, "github.com/acekingke/yaccgo/yaccgo")
	cmd.Dir = harnessDir
	b, err := cmd.CombinedOutput()
	if err != nil {
		return fmt.Errorf("building the yaccgo CLI: %v\n%s", err, b)
	}
	return nil
}

// RunResult of one CLI invocation.
type RunResult struct {
	// HarnessErr: the command could not be run or waited for properly (not an
	// exit status of the program): always a problem of the machine
	HarnessErr string
	Exit       int
	Stdout     string
	Stderr     string
	TimedOut   bool
	Dur        time.Duration
}

// Failed reports whether the CLI signalled failure (non-zero exit).
func (r RunResult) Failed() bool { return r.Exit != 0 || r.TimedOut }

// EnvironmentFailure reports a failure that is not yaccgo's verdict about its
// input: yaccgo always fails through a Go panic, so a non-zero exit without
// one (killed, could not start), or one that mentions resource exhaustion, is
// a problem of the machine (disk full, out of memory), not of the property.
func (r RunResult) EnvironmentFailure() bool {
	if r.HarnessErr != "" {
		return true
	}
	if !r.Failed() || r.TimedOut {
		return false
	}
	for _, k := range []string{"no space left on device", "cannot allocate memory", "too many open files", "disk quota exceeded", "resource temporarily unavailable", "out of memory"} {
		if strings.Contains(r.Stderr, k) {
			return true
		}
	}
	return !strings.Contains(r.Stderr, "panic:") && !strings.Contains(r.Stderr, "fatal error:")
}

// Run executes a command with a deadline.
func Run(timeout time.Duration, dir string, stdin []byte, name string, args ...string) RunResult {
	r := runOnce(timeout, dir, stdin, name, args...)
	for try := 0; try < 2 && r.HarnessErr != ""; try++ {
		// the command could not be started or waited for (overloaded machine);
		// everything the harness runs this way is repeatable
		time.Sleep(time.Second)
		r = runOnce(timeout, dir, stdin, name, args...)
	}
	return r
}

func runOnce(timeout time.Duration, dir string, stdin []byte, name string, args ...string) RunResult {
	ctx, cancel := context.WithTimeout(context.Background(), timeout)
	defer cancel()
	cmd := exec.CommandContext(ctx, name, args...)
	cmd.Dir = dir
	var so, se bytes.Buffer
	cmd.Stdout = &so
	cmd.Stderr = &se
	if stdin != nil {
		cmd.Stdin = bytes.NewReader(stdin)
	}
	cmd.WaitDelay = 15 * time.Second
	start := time.Now()
	err := cmd.Run()
	r := RunResult{Stdout: so.String(), Stderr: se.String(), Dur: time.Since(start)}
	if ctx.Err() == context.DeadlineExceeded {
		r.TimedOut = true
		r.Exit = -1
		return r
	}
	if err != nil {
		if ee, ok := err.(*exec.ExitError); ok {
			r.Exit = ee.ExitCode()
			if r.Exit < 0 {
				r.Exit = 255 // killed by a signal
			}
		} else {
			r.Exit = 254
			r.HarnessErr = err.Error()
			r.Stderr += "\n" + err.Error()
		}
	}
	return r
}

// Generate runs `yaccgo generate <lang> <opts> in out`.
func Generate(cli string, v Variant, in, out string, timeout time.Duration) RunResult {
	args := []string{"generate", v.Lang}
	args = append(args, v.Opts...)
	args = append(args, in, out)
	return Run(timeout, filepath.Dir(in), nil, cli, args...)
}

// FindNode returns a node binary that can run TypeScript directly (type
// stripping: node >= 22.6 with the flag, >= 23.6 / 22.18 by default).
func FindNode() (string, []string, error) {
	var cands []string
	if p := os.Getenv("VERIF_NODE"); p != "" {
		cands = append(cands, p)
	}
	home, _ := os.UserHomeDir()
	for _, base := range []string{filepath.Join(home, ".nvm/versions/node"), "/root/.nvm/versions/node", "/usr/local/nvm/versions/node"} {
		m, _ := filepath.Glob(filepath.Join(base, "v*", "bin", "node"))
		sort.Sort(sort.Reverse(sort.StringSlice(m)))
		cands = append(cands, m...)
	}
	if p, err := exec.LookPath("node"); err == nil {
		cands = append(cands, p)
	}
	dir, err := os.MkdirTemp("", "verif-node-")
	if err != nil {
		return "", nil, err
	}
	defer os.RemoveAll(dir)
	probe := filepath.Join(dir, "p.ts")
	os.WriteFile(probe, []byte("let x :number = 41; class A { v :number; }\nconsole.log(x+1)\n"), 0o644)
	for _, n := range cands {
		for _, flags := range [][]string{nil, {"--experimental-strip-types"}} {
			args := append(append([]string{}, flags...), probe)
			r := Run(20*time.Second, dir, nil, n, args...)
			if r.Exit == 0 && strings.TrimSpace(r.Stdout) == "42" {
				return n, flags, nil
			}
		}
	}
	return "", nil, fmt.Errorf("no node binary able to run TypeScript (type stripping) found; tried %v", cands)
}
