// Package gen runs yaccgo as its users do (tier G): the CLI built from /repo,
// the emitted files compiled and executed unchanged.
package gen

import (
	"bytes"
	"context"
	"fmt"
	"os"
	"os/exec"
	"path/filepath"
	"sort"
	"strconv"
	"strings"
	"time"
)

// Variant is one output variant of the generator.
type Variant struct {
	Name string   // go, go-u, go-o, go-ou, ts
	Lang string   // go | typescript
	Opts []string // CLI flags
}

var (
	VGo   = Variant{"go", "go", nil}
	VGoU  = Variant{"go-u", "go", []string{"-u"}}
	VGoO  = Variant{"go-o", "go", []string{"-o"}}
	VGoOU = Variant{"go-ou", "go", []string{"-o", "-u"}}
	VTs   = Variant{"ts", "typescript", nil}
	// AllVariants in a fixed order.
	AllVariants = []Variant{VGo, VGoU, VGoO, VGoOU, VTs}
	GoVariants  = []Variant{VGo, VGoU, VGoO, VGoOU}
)

func (v Variant) Object() bool { return v.Name == "go-o" || v.Name == "go-ou" }
func (v Variant) IsGo() bool   { return v.Lang == "go" }

func VariantByName(n string) (Variant, bool) {
	for _, v := range AllVariants {
		if v.Name == n {
			return v, true
		}
	}
	return Variant{}, false
}

// BuildCLI builds the yaccgo command from the /repo working tree (through the
// harness module's replace directive, so /repo/go.sum is never touched).
func BuildCLI(harnessDir, out string) error {
	cmd := exec.Command("go", "build", "-tags", "verif", "-o", out, "github.com/acekingke/yaccgo/yaccgo")
	cmd.Dir = harnessDir
	b, err := cmd.CombinedOutput()
	if err != nil {
		return fmt.Errorf("building the yaccgo CLI: %v\n%s", err, b)
	}
	return nil
}

// RunResult of one CLI invocation.
type RunResult struct {
	// HarnessErr: the command could not be run or waited for properly (not an
	// exit status of the program): always a problem of the machine
	HarnessErr string
	Exit       int
	Stdout     string
	Stderr     string
	TimedOut   bool
	Dur        time.Duration
}

// Failed reports whether the CLI signalled failure (non-zero exit).
func (r RunResult) Failed() bool { return r.Exit != 0 || r.TimedOut }

// EnvironmentFailure reports a failure that is not yaccgo's verdict about its
// input: yaccgo always fails through a Go panic, so a non-zero exit without
// one (killed, could not start), or one that mentions resource exhaustion, is
// a problem of the machine (disk full, out of memory), not of the property.
func (r RunResult) EnvironmentFailure() bool {
	if r.HarnessErr != "" {
		return true
	}
	if !r.Failed() || r.TimedOut {
		return false
	}
	for _, k := range []string{"no space left on device", "cannot allocate memory", "too many open files", "disk quota exceeded", "resource temporarily unavailable", "out of memory"} {
		if strings.Contains(r.Stderr, k) {
			return true
		}
	}
	return !strings.Contains(r.Stderr, "panic:") && !strings.Contains(r.Stderr, "fatal error:")
}

// Run executes a command with a deadline.
func Run(timeout time.Duration, dir string, stdin []byte, name string, args ...string) RunResult {
	r := runOnce(timeout, dir, stdin, name, args...)
	for try := 0; try < 2 && r.HarnessErr != ""; try++ {
		// the command could not be started or waited for (overloaded machine);
		// everything the harness runs this way is repeatable
		time.Sleep(time.Second)
		r = runOnce(timeout, dir, stdin, name, args...)
	}
	return r
}

func runOnce(timeout time.Duration, dir string, stdin []byte, name string, args ...string) RunResult {
	ctx, cancel := context.WithTimeout(context.Background(), timeout)
	defer cancel()
	cmd := exec.CommandContext(ctx, name, args...)
	cmd.Dir = dir
	var so, se bytes.Buffer
	cmd.Stdout = &so
	cmd.Stderr = &se
	if stdin != nil {
		cmd.Stdin = bytes.NewReader(stdin)
	}
	cmd.WaitDelay = 15 * time.Second
	start := time.Now()
	err := cmd.Run()
	r := RunResult{Stdout: so.String(), Stderr: se.String(), Dur: time.Since(start)}
	if ctx.Err() == context.DeadlineExceeded {
		r.TimedOut = true
		r.Exit = -1
		return r
	}
	if err != nil {
		if ee, ok := err.(*exec.ExitError); ok {
			r.Exit = ee.ExitCode()
			if r.Exit < 0 {
				r.Exit = 255 // killed by a signal
			}
		} else {
			r.Exit = 254
			r.HarnessErr = err.Error()
			r.Stderr += "\n" + err.Error()
		}
	}
	return r
}

// Generate runs `yaccgo generate <lang> <opts> in out`.
func Generate(cli string, v Variant, in, out string, timeout time.Duration) RunResult {
	args := []string{"generate", v.Lang}
	args = append(args, v.Opts...)
	args = append(args, in, out)
	return Run(timeout, filepath.Dir(in), nil, cli, args...)
}

// FindNode returns a node binary that can run TypeScript directly (type
// stripping: node >= 22.6 with the flag, >= 23.6 / 22.18 by default).
func FindNode() (string, []string, error) {
	var cands []string
	if p := os.Getenv("VERIF_NODE"); p != "" {
		cands = append(cands, p)
	}
	home, _ := os.UserHomeDir()
	for _, base := range []string{filepath.Join(home, ".nvm/versions/node"), "/root/.nvm/versions/node", "/usr/local/nvm/versions/node"} {
		m, _ := filepath.Glob(filepath.Join(base, "v*", "bin", "node"))
		sort.Sort(sort.Reverse(sort.StringSlice(m)))
		cands = append(cands, m...)
	}
	if p, err := exec.LookPath("node"); err == nil {
		cands = append(cands, p)
	}
	dir, err := os.MkdirTemp("", "verif-node-")
	if err != nil {
		return "", nil, err
	}
	defer os.RemoveAll(dir)
	probe := filepath.Join(dir, "p.ts")
	os.WriteFile(probe, []byte("let x :number = 41; class A { v :number; }\nconsole.log(x+1)\n"), 0o644)
	for _, n := range cands {
		for _, flags := range [][]string{nil, {"--experimental-strip-types"}} {
			args := append(append([]string{}, flags...), probe)
			r := Run(20*time.Second, dir, nil, n, args...)
			if r.Exit == 0 && strings.TrimSpace(r.Stdout) == "42" {
				return n, flags, nil
			}
		}
	}
	return "", nil, fmt.Errorf("no node binary able to run TypeScript (type stripping) found; tried %v", cands)
}

// CPURun is the outcome of RunCPU.
type CPURun struct {
	Finished bool          // the program ended by itself
	Spun     bool          // killed after consuming cpuLimit of processor time
	Blocked  bool          // killed: no thread runnable and no processor time used for blockedFor
	Starved  bool          // gave up at wallMax without a verdict (overloaded machine)
	CPU      time.Duration // processor time consumed
	Wall     time.Duration
}

// RunCPU runs a command whose termination is the question. Wall-clock time
// says nothing on a loaded machine, so the verdict rests on what the process
// did: it "spins" when it has used cpuLimit of processor time (user+system,
// all threads) without ending, it is "blocked" when for blockedFor none of its
// threads was runnable and its processor time did not advance. A process
// that is merely waiting for a processor is neither; at wallMax it is given
// up as Starved (no verdict).
func RunCPU(cpuLimit, blockedFor, wallMax time.Duration, dir string, name string, args ...string) CPURun {
	cmd := exec.Command(name, args...)
	cmd.Dir = dir
	cmd.Stdout = nil
	cmd.Stderr = nil
	start := time.Now()
	if err := cmd.Start(); err != nil {
		return CPURun{Starved: true}
	}
	done := make(chan struct{})
	go func() { cmd.Wait(); close(done) }()
	pid := cmd.Process.Pid
	var res CPURun
	lastCPU := time.Duration(-1)
	idleSince := time.Now()
	tick := time.NewTicker(200 * time.Millisecond)
	defer tick.Stop()
	for {
		select {
		case <-done:
			res.Finished = true
			res.Wall = time.Since(start)
			if cmd.ProcessState != nil {
				res.CPU = cmd.ProcessState.UserTime() + cmd.ProcessState.SystemTime()
			}
			return res
		case <-tick.C:
		}
		cpu, runnable, ok := procActivity(pid)
		if !ok {
			continue // gone or unreadable: the Wait above will tell
		}
		res.CPU = cpu
		if cpu != lastCPU || runnable {
			lastCPU = cpu
			idleSince = time.Now()
		}
		switch {
		case cpu >= cpuLimit:
			res.Spun = true
		case time.Since(idleSince) >= blockedFor:
			res.Blocked = true
		case time.Since(start) >= wallMax:
			res.Starved = true
		default:
			continue
		}
		cmd.Process.Kill()
		<-done
		res.Wall = time.Since(start)
		return res
	}
}

// procActivity reads /proc: processor time of the process (all threads) and
// whether any thread is runnable or in uninterruptible sleep.
func procActivity(pid int) (cpu time.Duration, runnable bool, ok bool) {
	b, err := os.ReadFile(fmt.Sprintf("/proc/%d/stat", pid))
	if err != nil {
		return 0, false, false
	}
	f := statFields(string(b))
	if len(f) < 15 {
		return 0, false, false
	}
	ut, _ := strconv.ParseInt(f[11], 10, 64)
	st, _ := strconv.ParseInt(f[12], 10, 64)
	cpu = time.Duration(ut+st) * (time.Second / 100) // USER_HZ is 100 on Linux
	tasks, _ := filepath.Glob(fmt.Sprintf("/proc/%d/task/*/stat", pid))
	for _, t := range tasks {
		if tb, err := os.ReadFile(t); err == nil {
			if tf := statFields(string(tb)); len(tf) > 0 && (tf[0] == "R" || tf[0] == "D") {
				runnable = true
			}
		}
	}
	return cpu, runnable, true
}

// statFields returns the fields of a /proc stat line after the "(comm)" part:
// [0] = state, [11] = utime, [12] = stime.
func statFields(line string) []string {
	i := strings.LastIndex(line, ")")
	if i < 0 {
		return nil
	}
	return strings.Fields(line[i+1:])
}
