package gen

import (
	"fmt"
	"strings"

	"verifharness/spec"
)

// FieldType: the union field named "str" (or starting with "s_") holds a
// string, every other field an integer.
func FieldIsString(f string) bool { return f == "str" || strings.HasPrefix(f, "s_") }

// TokenIntValue is the value the driver's lexer gives to the token of
// terminal i at input position p (0-based) when its tag is an integer field.
func TokenIntValue(p, i int) int { return 1 + (p*31+i*7)%1000 }

// TokenStrValue: same for a string field.
func TokenStrValue(s *spec.Spec, p, i int) string {
	t := s.Terms[i]
	n := t.Name
	if t.IsLit() {
		n = t.Lit
	}
	return fmt.Sprintf("%s%d", n, p)
}

// StepLimit bounds the number of reductions of one parse in the driver.
const StepLimit = 20000

func fieldsOf(s *spec.Spec) []string {
	if len(s.Fields) == 0 {
		return []string{"val"}
	}
	return s.Fields
}

// DriverFile renders the grammar file for one variant with the harness's
// prologue, union, actions (rec(n); <Sem>) and driver epilogue.
func DriverFile(s0 *spec.Spec, v Variant) string {
	s := s0.Clone()
	s.Fields = fieldsOf(s0)
	// every action is  rec(n, <closure assigning $$>) : the driver records the
	// reduction and runs the assignment - normally at once; when a nested
	// parser run is scheduled at this reduction, after the nested run and, on
	// the global parser, before PopContex() (user code that combines $n with
	// the nested result before restoring the outer parser)
	for i := range s.Rules {
		if s.Rules[i].NoAct {
			s.Rules[i].Action = ""
			continue
		}
		t := s.Rules[i].Sem.Text()
		if s.Rules[i].Plain {
			if t == "" {
				s.Rules[i].Action = ""
			} else {
				s.Rules[i].Action = "{ " + t + " }"
			}
			continue
		}
		var body string
		switch {
		case t == "" && v.IsGo():
			body = fmt.Sprintf("rec(%d, nil)", i+1)
		case t == "":
			body = fmt.Sprintf("rec(%d, null)", i+1)
		case v.IsGo():
			body = fmt.Sprintf("rec(%d, func() { %s })", i+1, t)
		default:
			body = fmt.Sprintf("rec(%d, () => { %s })", i+1, t)
		}
		s.Rules[i].Action = "{ " + body + " }"
	}
	if v.IsGo() {
		s.Prologue = "\npackage main\n\nimport (\n\t\"encoding/json\"\n\t\"fmt\"\n\t\"io\"\n\t\"os\"\n\t\"strings\"\n)\n"
		var u strings.Builder
		u.WriteString("\n")
		for _, f := range s.Fields {
			if FieldIsString(f) {
				fmt.Fprintf(&u, "\t%s string\n", f)
			} else {
				fmt.Fprintf(&u, "\t%s int\n", f)
			}
		}
		s.Union = u.String()
		s.Epilogue = goEpilogue(s, v)
	} else {
		s.Prologue = "\n\"use strict\";\n"
		var u strings.Builder
		u.WriteString("\n")
		for _, f := range s.Fields {
			// initialisers: a value nobody assigned is 0 / "" in TypeScript as it is in Go
			if FieldIsString(f) {
				fmt.Fprintf(&u, "\t%s :string = \"\";\n", f)
			} else {
				fmt.Fprintf(&u, "\t%s :number = 0;\n", f)
			}
		}
		s.Union = u.String()
		s.Epilogue = tsEpilogue(s)
	}
	return s.Render(spec.RenderOpts{})
}

func tokCode(t spec.Term) string {
	if t.IsLit() {
		return fmt.Sprint(int(t.Lit[0]))
	}
	return t.Name
}

func goEpilogue(s *spec.Spec, v Variant) string {
	var b strings.Builder
	b.WriteString("\n// ---- verification driver (harness/gen/driver.go) ----\n")
	b.WriteString("type vTok struct {\n\tcode int\n\tset  func(v *ValType, p int)\n}\n\n")
	b.WriteString("var vTokTab = []vTok{\n")
	for i, t := range s.Terms {
		set := "nil"
		if t.Tag != "" {
			if FieldIsString(t.Tag) {
				n := t.Name
				if t.IsLit() {
					n = t.Lit
				}
				set = fmt.Sprintf("func(v *ValType, p int) { v.%s = fmt.Sprintf(\"%%s%%d\", %q, p) }", t.Tag, n)
			} else {
				set = fmt.Sprintf("func(v *ValType, p int) { v.%s = 1 + (p*31+%d*7)%%1000 }", t.Tag, i)
			}
		}
		fmt.Fprintf(&b, "\t{%s, %s},\n", tokCode(t), set)
	}
	b.WriteString("}\n")
	var fl []string
	for _, f := range s.Fields {
		fl = append(fl, fmt.Sprintf("%q: v.%s", f, f))
	}
	fmt.Fprintf(&b, "\nfunc vFields(v *ValType) map[string]interface{} {\n\treturn map[string]interface{}{%s}\n}\n", strings.Join(fl, ", "))
	fmt.Fprintf(&b, "\nconst vNSyms = %d\n", 2+len(s.Terms)+len(s.NTs))
	if s.EOFAlias != "" {
		fmt.Fprintf(&b, "\nvar _ = %s // the end-marker alias must exist as a constant\n", s.EOFAlias)
	}
	b.WriteString(goDriverCommon)
	if v.Object() {
		b.WriteString(goDriverObject)
	} else {
		b.WriteString(goDriverGlobal)
	}
	return b.String()
}

const goDriverCommon = `
var (
	vTrace    []int
	vSteps    int
	vFetched  [256]int
	vParallel bool
	vGates    [256]chan struct{}
	vYield    chan int
	vLimit    = 20000
)

var vTraceAt = -1 // switch IsTrace on when the parse performs its vTraceAt-th reduction

var (
	vNestAt    = -1 // run a nested parse when the outer parse performs its vNestAt-th reduction
	vNestIn    []int
	vNestDepth int
	vNestRes   *vRes
)

func rec(n int, f func()) {
	if vParallel {
		if f != nil {
			f()
		}
		return
	}
	vTrace = append(vTrace, n)
	vSteps++
	if vSteps > vLimit {
		panic("vlimit")
	}
	if vNestDepth == 0 && vTraceAt > 0 && vSteps == vTraceAt {
		IsTrace = true
	}
	if vNestDepth == 0 && vNestAt > 0 && vSteps == vNestAt {
		vNestDepth++
		saveT, saveS := vTrace, vSteps
		vTrace, vSteps = nil, 0
		if IsTrace {
			fmt.Println("@@NEST-BEGIN")
		}
		r := vNested(vNestIn, func() {
			// still inside the nested region: the outer action's operands must be intact
			if IsTrace {
				fmt.Println("@@NEST-END")
			}
			if f != nil {
				f()
			}
		})
		r.Trace = append([]int{}, vTrace...)
		vNestRes = &r
		vTrace, vSteps = saveT, saveS
		vNestDepth--
		return
	}
	if f != nil {
		f()
	}
}

func vMaxCode() int {
	m := 2
	for _, t := range vTokTab {
		if t.code > m {
			m = t.code
		}
	}
	return m
}

func vUnknown(k int) int {
	switch k % 4 {
	case 0:
		return vMaxCode() + 1
	case 1:
		return vMaxCode() + 1000
	case 2:
		return 0
	}
	return -2
}

func GetToken(input string, valTy *ValType, pos *int) int {
	if *pos == 0 {
		*pos = 1 // byte 0 is the parse id
	}
	id := int(input[0])
	if g := vGates[id]; g != nil {
		vYield <- id
		<-g
	}
	vFetched[id]++
	if *pos >= len(input) {
		return -1
	}
	b := int(input[*pos])
	p := *pos - 1
	*pos++
	*valTy = ValType{}
	if b < len(vTokTab) {
		if vTokTab[b].set != nil {
			vTokTab[b].set(valTy, p)
		}
		return vTokTab[b].code
	}
	return vUnknown(b - len(vTokTab))
}

type vOp struct {
	Op       string  ` + "`json:\"op\"`" + `
	Ctx      int     ` + "`json:\"ctx\"`" + `
	In       []int   ` + "`json:\"in\"`" + `
	Init     bool    ` + "`json:\"init\"`" + `
	Trace    bool    ` + "`json:\"trace\"`" + `
	TraceAt  int     ` + "`json:\"trace_at\"`" + `
	NestAt   int     ` + "`json:\"nest_at\"`" + `
	NestIn   []int   ` + "`json:\"nest_in\"`" + `
	Parses   []vOp   ` + "`json:\"parses\"`" + `
	Schedule []int   ` + "`json:\"schedule\"`" + `
}

type vRes struct {
	Verdict string                 ` + "`json:\"verdict\"`" + `
	Msg     string                 ` + "`json:\"msg,omitempty\"`" + `
	Trace   []int                  ` + "`json:\"trace\"`" + `
	Val     map[string]interface{} ` + "`json:\"val,omitempty\"`" + `
	Fetched int                    ` + "`json:\"fetched\"`" + `
	Out     string                 ` + "`json:\"out,omitempty\"`" + `
	Nested  *vRes                  ` + "`json:\"nested,omitempty\"`" + `
}

func vInput(id int, in []int) string {
	b := []byte{byte(id)}
	for _, x := range in {
		b = append(b, byte(x))
	}
	return string(b)
}

// vRun1 runs one parse through f and classifies the outcome.
func vRun1(id int, f func() *ValType) (res vRes) {
	vFetched[id] = 0
	defer func() {
		res.Fetched = vFetched[id]
		if e := recover(); e != nil {
			s := fmt.Sprint(e)
			switch {
			case strings.HasPrefix(s, "Grammar error"):
				res.Verdict = "syntax"
				res.Msg = s
			case s == "vlimit":
				res.Verdict = "loop"
			default:
				res.Verdict = "crash"
				res.Msg = s
			}
		}
	}()
	v := f()
	if v == nil {
		res.Verdict = "nilreturn"
		return
	}
	res.Verdict = "accept"
	res.Val = vFields(v)
	return
}

func vCapture(on bool, f func()) string {
	if !on {
		f()
		return ""
	}
	tmp, err := os.CreateTemp("", "vtrace")
	if err != nil {
		panic(err)
	}
	old := os.Stdout
	os.Stdout = tmp
	func() {
		defer func() { os.Stdout = old }()
		f()
	}()
	tmp.Seek(0, 0)
	out, _ := io.ReadAll(tmp)
	tmp.Close()
	os.Remove(tmp.Name())
	return string(out)
}

func main() {
	raw, _ := io.ReadAll(os.Stdin)
	var ops []vOp
	if err := json.Unmarshal(raw, &ops); err != nil {
		fmt.Println("BADOPS", err)
		os.Exit(3)
	}
	enc := json.NewEncoder(os.Stdout)
	for _, op := range ops {
		enc.Encode(vDo(op))
	}
}
`

const goDriverGlobal = `
// vNested: a whole parse started from inside an action of the running parse,
// bracketed by PushContex/PopContex as the template provides for.
func vNested(in []int, then func()) vRes {
	PushContex()
	defer PopContex()
	r := vRun1(200, func() *ValType {
		ParserInit()
		return Parser(vInput(200, in))
	})
	saveT := vTrace
	then() // evaluated before PopContex()
	vTrace = saveT
	return r
}

func vParse(op vOp) vRes {
	vTrace, vSteps = nil, 0
	vNestAt, vNestIn, vNestRes = op.NestAt, op.NestIn, nil
	vTraceAt = op.TraceAt
	defer func() { vNestAt, vTraceAt = -1, -1 }()
	var res vRes
	res.Out = vCapture(op.Trace || op.TraceAt > 0, func() {
		IsTrace = op.Trace
		defer func() { IsTrace = false }()
		res = vRun1(0, func() *ValType {
			if op.Init {
				ParserInit()
			}
			return Parser(vInput(0, op.In))
		})
	})
	out := res.Out
	res.Trace = append([]int{}, vTrace...)
	res.Out = out
	res.Nested = vNestRes
	return res
}

func vDo(op vOp) interface{} {
	switch op.Op {
	case "parse":
		return vParse(op)
	case "init", "fresh":
		ParserInit()
		return map[string]string{"ok": "init"}
	case "cells":
		return vCells()
	case "translate":
		return vTranslate(op.In)
	}
	return map[string]string{"error": "unknown op " + op.Op}
}

// vCells dumps Action(state, symbol) for every state: states are probed from 0
// upwards until a lookup in a new state fails (index out of range), so nothing
// is assumed about how the error and accept codes relate to the state count.
func vCells() interface{} {
	var out [][]int
	for s := 0; s < 5000; s++ {
		if _, ok := vCell(s, 0); !ok {
			break
		}
		row := []int{}
		for a := 0; ; a++ {
			v, ok := vCell(s, a)
			if !ok {
				break
			}
			row = append(row, v)
		}
		out = append(out, row)
	}
	return map[string]interface{}{"cells": out}
}

func vCell(s, a int) (v int, ok bool) {
	defer func() {
		if recover() != nil {
			ok = false
		}
	}()
	if a >= vNSyms {
		return 0, false
	}
	return (&StateSym{Yystate: s}).Action(a), true
}

func vTranslate(codes []int) interface{} {
	out := []int{}
	for _, c := range codes {
		out = append(out, translate(c))
	}
	names := []string{}
	for i := 0; i < vNSyms; i++ {
		names = append(names, TraceTranslate(i))
	}
	codesOf := []int{}
	own := []int{}
	for _, t := range vTokTab {
		codesOf = append(codesOf, t.code)
		own = append(own, translate(t.code))
	}
	return map[string]interface{}{"translate": out, "names": names, "codes": codesOf, "own": own}
}
`

const goDriverObject = `
var vCtx = map[int]*Context{}

func vGetCtx(id int, fresh bool) *Context {
	c := vCtx[id]
	if c == nil || fresh {
		c = MakeParserContext()
		vCtx[id] = c
	}
	return c
}

// vNested: a whole parse on another context, started from inside an action.
func vNested(in []int, then func()) vRes {
	c := MakeParserContext()
	r := vRun1(200, func() *ValType {
		return c.Parser(vInput(200, in))
	})
	then()
	return r
}

func vParse(op vOp) vRes {
	vTrace, vSteps = nil, 0
	vNestAt, vNestIn, vNestRes = op.NestAt, op.NestIn, nil
	vTraceAt = op.TraceAt
	defer func() { vNestAt, vTraceAt = -1, -1 }()
	var res vRes
	out := vCapture(op.Trace || op.TraceAt > 0, func() {
		IsTrace = op.Trace
		defer func() { IsTrace = false }()
		res = vRun1(op.Ctx, func() *ValType {
			c := vGetCtx(op.Ctx, false)
			if op.Init {
				c.ParserInit()
			}
			return c.Parser(vInput(op.Ctx, op.In))
		})
	})
	res.Trace = append([]int{}, vTrace...)
	res.Out = out
	res.Nested = vNestRes
	return res
}

// vInterleave runs the parses of op on distinct contexts; the schedule says
// which parse may fetch its next token; exactly one goroutine runs at a time.
func vInterleave(op vOp) interface{} {
	n := len(op.Parses)
	results := make([]vRes, n)
	traces := make([][]int, n)
	steps := make([]int, n)
	done := make([]bool, n)
	vYield = make(chan int)
	finished := make(chan int)
	cur := -1
	swapIn := func(i int) {
		cur = i
		vTrace, vSteps = traces[i], steps[i]
	}
	swapOut := func() {
		if cur >= 0 {
			traces[cur], steps[cur] = vTrace, vSteps
		}
		cur = -1
	}
	wait := func(i int) {
		select {
		case <-vYield:
		case <-finished:
			done[i] = true
		}
		swapOut()
	}
	for i := 0; i < n; i++ {
		id := op.Parses[i].Ctx
		vGates[id] = make(chan struct{})
		swapIn(i)
		go func(i int, p vOp) {
			results[i] = vRun1(p.Ctx, func() *ValType {
				c := vGetCtx(p.Ctx, true)
				return c.Parser(vInput(p.Ctx, p.In))
			})
			finished <- i
		}(i, op.Parses[i])
		wait(i)
	}
	step := func(i int) {
		if done[i] {
			return
		}
		swapIn(i)
		vGates[op.Parses[i].Ctx] <- struct{}{}
		wait(i)
	}
	for _, s := range op.Schedule {
		if s >= 0 && s < n {
			step(s)
		}
	}
	for i := 0; i < n; i++ {
		for !done[i] {
			step(i)
		}
	}
	for i := 0; i < n; i++ {
		vGates[op.Parses[i].Ctx] = nil
		results[i].Trace = append([]int{}, traces[i]...)
	}
	return map[string]interface{}{"interleave": results}
}

// vParallelRun runs the parses truly concurrently (for go build -race).
func vParallelRun(op vOp) interface{} {
	n := len(op.Parses)
	results := make([]vRes, n)
	vParallel = true
	ch := make(chan int)
	for i := 0; i < n; i++ {
		go func(i int, p vOp) {
			results[i] = vRun1(p.Ctx, func() *ValType {
				c := MakeParserContext()
				return c.Parser(vInput(p.Ctx, p.In))
			})
			ch <- i
		}(i, op.Parses[i])
	}
	for i := 0; i < n; i++ {
		<-ch
	}
	vParallel = false
	return map[string]interface{}{"parallel": results}
}

func vDo(op vOp) interface{} {
	switch op.Op {
	case "parse":
		return vParse(op)
	case "fresh":
		vGetCtx(op.Ctx, true)
		return map[string]string{"ok": "fresh"}
	case "init":
		vGetCtx(op.Ctx, false).ParserInit()
		return map[string]string{"ok": "init"}
	case "interleave":
		return vInterleave(op)
	case "parallel":
		return vParallelRun(op)
	case "cells":
		return vCells()
	case "translate":
		return vTranslate(op.In)
	}
	return map[string]string{"error": "unknown op " + op.Op}
}

func vCells() interface{} {
	var out [][]int
	for s := 0; s < 5000; s++ {
		if _, ok := vCell(s, 0); !ok {
			break
		}
		row := []int{}
		for a := 0; a < vNSyms; a++ {
			v, ok := vCell(s, a)
			if !ok {
				break
			}
			row = append(row, v)
		}
		out = append(out, row)
	}
	return map[string]interface{}{"cells": out}
}

func vCell(s, a int) (v int, ok bool) {
	defer func() {
		if recover() != nil {
			ok = false
		}
	}()
	return (&StateSym{Yystate: s}).Action(a), true
}

func vTranslate(codes []int) interface{} {
	out := []int{}
	for _, c := range codes {
		out = append(out, translate(c))
	}
	names := []string{}
	for i := 0; i < vNSyms; i++ {
		names = append(names, TraceTranslate(i))
	}
	codesOf := []int{}
	own := []int{}
	for _, t := range vTokTab {
		codesOf = append(codesOf, t.code)
		own = append(own, translate(t.code))
	}
	return map[string]interface{}{"translate": out, "names": names, "codes": codesOf, "own": own}
}
`

func tsEpilogue(s *spec.Spec) string {
	var b strings.Builder
	b.WriteString("\n// ---- verification driver (harness/gen/driver.go) ----\n")
	b.WriteString("const vTokTab :{code :number, set :any}[] = [\n")
	for i, t := range s.Terms {
		set := "null"
		if t.Tag != "" {
			if FieldIsString(t.Tag) {
				n := t.Name
				if t.IsLit() {
					n = t.Lit
				}
				set = fmt.Sprintf("(v :ValType, p :number) => { v.%s = %q + String(p) }", t.Tag, n)
			} else {
				set = fmt.Sprintf("(v :ValType, p :number) => { v.%s = 1 + (p*31+%d*7)%%1000 }", t.Tag, i)
			}
		}
		fmt.Fprintf(&b, "\t{code: %s, set: %s},\n", tokCode(t), set)
	}
	b.WriteString("]\n")
	var fl []string
	for _, f := range s.Fields {
		if FieldIsString(f) {
			fl = append(fl, fmt.Sprintf("%q: (v.%s === undefined || v.%s === null) ? \"\" : v.%s", f, f, f, f))
		} else {
			fl = append(fl, fmt.Sprintf("%q: (v.%s === undefined || v.%s === null) ? 0 : v.%s", f, f, f, f))
		}
	}
	fmt.Fprintf(&b, "function vFields(v :any) :any {\n\treturn {%s}\n}\n", strings.Join(fl, ", "))
	fmt.Fprintf(&b, "const vNSyms = %d\n", 2+len(s.Terms)+len(s.NTs))
	if s.EOFAlias != "" {
		fmt.Fprintf(&b, "const vEndMarkerAlias :number = %s\n", s.EOFAlias)
	}
	b.WriteString(tsDriver)
	return b.String()
}

const tsDriver = `
var vTrace :number[] = []
var vSteps = 0
var vFetched = 0
var vErrs :string[] = []
const vLimit = 20000

function rec(n :number, f :any) {
	vTrace.push(n)
	vSteps++
	if (vSteps > vLimit) { throw "vlimit" }
	if (f) { f() }
}

function vMaxCode() :number {
	let m = 2
	for (const t of vTokTab) { if (t.code > m) { m = t.code } }
	return m
}

function vUnknown(k :number) :number {
	switch (k % 4) {
		case 0: return vMaxCode() + 1
		case 1: return vMaxCode() + 1000
		case 2: return 0
	}
	return -2
}

function GetToken(input :string, model:{ValType :ValType, pos :number}) :number {
	if (model.pos == 0) { model.pos = 1 }
	vFetched++
	if (model.pos >= input.length) { return -1 }
	const b = input.charCodeAt(model.pos)
	const p = model.pos - 1
	model.pos++
	model.ValType = new ValType()
	if (b < vTokTab.length) {
		if (vTokTab[b].set) { vTokTab[b].set(model.ValType, p) }
		return vTokTab[b].code
	}
	return vUnknown(b - vTokTab.length)
}

function vInput(id :number, arr :number[]) :string {
	let s = String.fromCharCode(id)
	for (const x of arr) { s += String.fromCharCode(x) }
	return s
}

function vParse(op :any) :any {
	vTrace = []; vSteps = 0; vFetched = 0; vErrs = []
	const res :any = {verdict: "", trace: [], fetched: 0}
	const oldErr = console.error
	console.error = (...a :any[]) => { vErrs.push(a.map(String).join(" ")) }
	try {
		if (op.init) { initialize() }
		const v = Parser(vInput(0, op.in))
		if (v === null || v === undefined) {
			if (vErrs.length > 0) { res.verdict = "syntax"; res.msg = vErrs.join("|") }
			else { res.verdict = "nilreturn" }
		} else {
			res.verdict = "accept"
			res.val = vFields(v)
			if (vErrs.length > 0) { res.msg = "logged: " + vErrs.join("|") }
		}
	} catch (e) {
		if (e === "vlimit") { res.verdict = "loop" }
		else { res.verdict = "crash"; res.msg = String(e) }
	}
	console.error = oldErr
	res.trace = vTrace.slice()
	res.fetched = vFetched
	return res
}

function vCells() :any {
	const out :number[][] = []
	for (let s = 0; s < 5000; s++) {
		const row :number[] = []
		try {
			for (let a = 0; a < vNSyms; a++) {
				const v = new StateSym(s, 0).Action(a)
				if (v === undefined) { throw "end" }
				row.push(v)
			}
		} catch (e) { break }
		out.push(row)
	}
	return {cells: out}
}

function vTranslate(codes :number[]) :any {
	const out :number[] = []
	for (const c of codes) { out.push(translate(c)) }
	const cs :number[] = []
	const own :number[] = []
	for (const t of vTokTab) { cs.push(t.code); own.push(translate(t.code)) }
	return {translate: out, codes: cs, own: own}
}

function vMain() {
	const raw = require("fs").readFileSync(0, "utf8")
	const ops = JSON.parse(raw)
	const lines :string[] = []
	for (const op of ops) {
		let r :any
		if (op.op == "parse") { r = vParse(op) }
		else if (op.op == "init" || op.op == "fresh") { initialize(); r = {ok: "init"} }
		else if (op.op == "cells") { r = vCells() }
		else if (op.op == "translate") { r = vTranslate(op.in) }
		else { r = {error: "unknown op " + op.op} }
		lines.push(JSON.stringify(r))
	}
	console.log(lines.join("\n"))
}
vMain()
`
