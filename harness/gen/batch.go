package gen

import (
	"encoding/json"
	"fmt"
	"os"
	"os/exec"
	"path/filepath"
	"strings"
	"sync"
	"syscall"
	"time"

	"verifharness/spec"
)

// Op is one driver operation (see the driver templates).
type Op struct {
	Op       string `json:"op"`
	Ctx      int    `json:"ctx"`
	In       []int  `json:"in"`
	Init     bool   `json:"init"`
	Trace    bool   `json:"trace,omitempty"`
	TraceAt  int    `json:"trace_at,omitempty"`
	NestAt   int    `json:"nest_at,omitempty"`
	NestIn   []int  `json:"nest_in,omitempty"`
	Parses   []Op   `json:"parses,omitempty"`
	Schedule []int  `json:"schedule,omitempty"`
}

// Res is the driver's answer to a parse op.
type Res struct {
	Verdict string                 `json:"verdict"`
	Msg     string                 `json:"msg,omitempty"`
	Trace   []int                  `json:"trace"`
	Val     map[string]interface{} `json:"val,omitempty"`
	Fetched int                    `json:"fetched"`
	Out     string                 `json:"out,omitempty"`
	Nested  *Res                   `json:"nested,omitempty"`
}

// Job: one grammar to be generated in several variants and exercised.
type Job struct {
	ID       string
	Spec     *spec.Spec
	Variants []Variant
	Ops      []Op
	// Runs, when set, replaces Ops: the binary is started once per element
	// (a fresh process each time) and VRes.RunLines holds the result lines.
	Runs [][]Op
	// Texts overrides the driver file per variant name (used by checks that
	// need the minimal prologue/epilogue); when set for a variant no ops run.
	Texts map[string]string
	Race  bool
	// RunTimeout for one binary run (default 60 s).
	RunTimeout time.Duration
}

// VRes is what happened to one variant of a job.
type VRes struct {
	YText    string
	Gen      RunResult
	OutPath  string
	Source   []byte // generated file ("" when generation failed)
	BuildErr string // compiler / loader diagnostics for this variant
	Built    bool
	Lines    []json.RawMessage // one per op
	RunLines [][]json.RawMessage
	RaceOut  string // race detector report, if any
	RunErr   string
	TimedOut bool
	Stderr   string
}

// ParseRes decodes line i as a parse result.
func (v *VRes) ParseRes(i int) (*Res, error) {
	if i >= len(v.Lines) {
		return nil, fmt.Errorf("driver printed %d result lines, need line %d (stderr: %s)", len(v.Lines), i, clip(v.Stderr, 300))
	}
	var r Res
	if err := json.Unmarshal(v.Lines[i], &r); err != nil {
		return nil, err
	}
	return &r, nil
}

func clip(s string, n int) string {
	if len(s) > n {
		return s[:n] + "..."
	}
	return s
}

// Env describes the tools of a run.
type Env struct {
	CLI       string
	Node      string
	NodeFlags []string
	Par       int
}

// RunBatch generates, builds and runs all jobs inside workdir (which it
// creates and the caller removes).
func RunBatch(env *Env, workdir string, jobs []*Job) (map[string]map[string]*VRes, error) {
	out := map[string]map[string]*VRes{}
	for _, j := range jobs {
		out[j.ID] = map[string]*VRes{}
	}
	src := filepath.Join(workdir, "src")
	mod := filepath.Join(workdir, "mod")
	modRace := filepath.Join(workdir, "modrace")
	tsdir := filepath.Join(workdir, "ts")
	bin := filepath.Join(workdir, "bin")
	binRace := filepath.Join(workdir, "binrace")
	for _, d := range []string{src, mod, modRace, tsdir, bin, binRace} {
		if err := os.MkdirAll(d, 0o755); err != nil {
			return nil, err
		}
	}
	gomod := "module gen\n\ngo 1.18\n"
	os.WriteFile(filepath.Join(mod, "go.mod"), []byte(gomod), 0o644)
	os.WriteFile(filepath.Join(modRace, "go.mod"), []byte(gomod), 0o644)
	par := env.Par
	if par <= 0 {
		par = 4
	}
	type item struct {
		j *Job
		v Variant
		r *VRes
	}
	var envMu sync.Mutex
	envErr := ""
	var items []*item
	for _, j := range jobs {
		for _, v := range j.Variants {
			r := &VRes{}
			out[j.ID][v.Name] = r
			items = append(items, &item{j, v, r})
		}
	}
	pkgName := func(it *item) string { return it.j.ID + "_" + strings.ReplaceAll(it.v.Name, "-", "_") }
	parallel := func(f func(it *item)) {
		sem := make(chan struct{}, par)
		var wg sync.WaitGroup
		for _, it := range items {
			wg.Add(1)
			sem <- struct{}{}
			go func(it *item) {
				defer wg.Done()
				defer func() { <-sem }()
				f(it)
			}(it)
		}
		wg.Wait()
	}
	// 1. generate
	anyGo, anyRace := false, false
	parallel(func(it *item) {
		r := it.r
		if t, ok := it.j.Texts[it.v.Name]; ok {
			r.YText = t
		} else {
			r.YText = DriverFile(it.j.Spec, it.v)
		}
		in := filepath.Join(src, pkgName(it)+".y")
		os.WriteFile(in, []byte(r.YText), 0o644)
		if it.v.IsGo() {
			m := mod
			if it.j.Race {
				m = modRace
			}
			dir := filepath.Join(m, pkgName(it))
			os.MkdirAll(dir, 0o755)
			r.OutPath = filepath.Join(dir, "main.go")
		} else {
			r.OutPath = filepath.Join(tsdir, pkgName(it)+".ts")
		}
		r.Gen = Generate(env.CLI, it.v, in, r.OutPath, 60*time.Second)
		if r.Gen.HarnessErr != "" {
			envMu.Lock()
			envErr = r.Gen.HarnessErr
			envMu.Unlock()
		}
		if !r.Gen.Failed() {
			r.Source, _ = os.ReadFile(r.OutPath)
		} else if it.v.IsGo() {
			os.RemoveAll(filepath.Dir(r.OutPath))
		}
	})
	if envErr != "" {
		return nil, fmt.Errorf("the yaccgo CLI could not be run properly on this machine: %s", envErr)
	}
	for _, it := range items {
		if it.v.IsGo() && !it.r.Gen.Failed() {
			if it.j.Race {
				anyRace = true
			} else {
				anyGo = true
			}
		}
	}
	// 2. build all Go packages at once
	build := func(m, b string, race bool) {
		args := []string{"build"}
		if race {
			args = append(args, "-race")
		}
		args = append(args, "-o", b+string(os.PathSeparator), "./...")
		var outb []byte
		for try := 0; try < 3; try++ {
			cmd := exec.Command("go", args...)
			cmd.Dir = m
			cmd.Env = append(os.Environ(), "GOFLAGS=-mod=mod", "GOWORK=off", "GOCACHE="+GenCacheDir())
			outb, _ = cmd.CombinedOutput()
			// a build cache that lost files under the running build (another
			// process trimmed it) heals itself: build again
			if o := string(outb); !(strings.Contains(o, "no such file or directory") && strings.Contains(o, "could not import")) {
				break
			}
		}
		// attribute diagnostics to packages
		cur := ""
		errs := map[string]string{}
		for _, line := range strings.Split(string(outb), "\n") {
			if strings.HasPrefix(line, "# ") {
				cur = strings.TrimPrefix(strings.Fields(line)[1], "gen/")
				continue
			}
			if cur != "" && line != "" {
				errs[cur] += line + "\n"
			}
		}
		for _, it := range items {
			if !it.v.IsGo() || it.r.Gen.Failed() || it.j.Race != race {
				continue
			}
			p := pkgName(it)
			if _, err := os.Stat(filepath.Join(b, p)); err == nil {
				it.r.Built = true
			} else {
				it.r.BuildErr = errs[p]
				if it.r.BuildErr == "" {
					it.r.BuildErr = "no binary produced; go build said:\n" + clip(string(outb), 2000)
				}
			}
		}
	}
	if anyGo {
		build(mod, bin, false)
	}
	if anyRace {
		build(modRace, binRace, true)
	}
	// 3. run
	parallel(func(it *item) {
		r := it.r
		if r.Gen.Failed() {
			return
		}
		if _, custom := it.j.Texts[it.v.Name]; custom {
			if !it.v.IsGo() {
				// load check only: run the file with empty stdin
				args := append(append([]string{}, env.NodeFlags...), r.OutPath)
				rr := Run(60*time.Second, tsdir, []byte("[]"), env.Node, args...)
				for try := 0; try < 2 && (rr.TimedOut || (rr.Exit != 0 && strings.TrimSpace(rr.Stderr+rr.Stdout) == "")); try++ {
					// no diagnostic about the file: the machine (overload, killed), once more with more time
					rr = Run(180*time.Second, tsdir, []byte("[]"), env.Node, args...)
				}
				r.Built = rr.Exit == 0 && !rr.TimedOut
				if !r.Built {
					r.BuildErr = clip(rr.Stderr+rr.Stdout, 3000)
				}
			}
			return
		}
		to := it.j.RunTimeout
		if to == 0 {
			to = 60 * time.Second
		}
		if it.v.IsGo() && !r.Built {
			return
		}
		runOnce := func(oplist []Op) []json.RawMessage {
			ops, _ := json.Marshal(oplist)
			var rr RunResult
			if it.v.IsGo() {
				b := bin
				if it.j.Race {
					b = binRace
				}
				rr = Run(to, workdir, ops, filepath.Join(b, pkgName(it)))
			} else {
				args := append(append([]string{}, env.NodeFlags...), r.OutPath)
				rr = Run(to, tsdir, ops, env.Node, args...)
				r.Built = true
			}
			if rr.TimedOut {
				r.TimedOut = true
			}
			r.Stderr = rr.Stderr
			if strings.Contains(rr.Stderr, "WARNING: DATA RACE") {
				r.RaceOut = clip(rr.Stderr, 4000)
			}
			if rr.Exit != 0 && !rr.TimedOut {
				r.RunErr = fmt.Sprintf("exit status %d: %s", rr.Exit, clip(rr.Stderr, 1500))
			}
			var lines []json.RawMessage
			for _, line := range strings.Split(rr.Stdout, "\n") {
				line = strings.TrimSpace(line)
				if strings.HasPrefix(line, "{") {
					lines = append(lines, json.RawMessage(line))
				}
			}
			return lines
		}
		if it.j.Runs != nil {
			for _, oplist := range it.j.Runs {
				r.RunLines = append(r.RunLines, runOnce(oplist))
			}
		} else {
			r.Lines = runOnce(it.j.Ops)
		}
	})
	return out, nil
}

// GenCacheDir is the Go build cache used for generated parsers only. Go never
// trims entries younger than five days, and every generated package leaves a
// few hundred kilobytes behind, so the harness keeps this cache apart from the
// user's and wipes it when it grows (TrimGenCache).
func GenCacheDir() string {
	if d := os.Getenv("VERIF_GEN_GOCACHE"); d != "" {
		return d
	}
	base, err := os.UserCacheDir()
	if err != nil {
		base = os.TempDir()
	}
	return filepath.Join(base, "verif-gen-gocache")
}

// genCacheLock keeps the shared lock on the cache for the life of the process.
var genCacheLock *os.File

// TrimGenCache removes the generated-code build cache when it exceeds limit bytes.
func TrimGenCache(limit int64) {
	dir := GenCacheDir()
	// Checks may run side by side and share this cache: every run holds a
	// shared lock on <dir>.lock for its lifetime (LockGenCache) and the cache
	// is only removed by a run that gets the lock exclusively, i.e. alone.
	lf, err := os.OpenFile(dir+".lock", os.O_CREATE|os.O_RDWR, 0o644)
	if err != nil {
		return
	}
	if syscall.Flock(int(lf.Fd()), syscall.LOCK_EX|syscall.LOCK_NB) != nil {
		// somebody is building with it: leave it alone this time
		syscall.Flock(int(lf.Fd()), syscall.LOCK_SH)
		genCacheLock = lf
		return
	}
	defer func() {
		syscall.Flock(int(lf.Fd()), syscall.LOCK_SH) // downgrade: held until the process ends
		genCacheLock = lf
	}()
	var total int64
	filepath.WalkDir(dir, func(p string, d os.DirEntry, err error) error {
		if err == nil && !d.IsDir() {
			if fi, e := d.Info(); e == nil {
				total += fi.Size()
			}
		}
		return nil
	})
	if total > limit {
		old := fmt.Sprintf("%s.old.%d", dir, os.Getpid())
		if os.Rename(dir, old) == nil {
			os.RemoveAll(old)
		} else {
			os.RemoveAll(dir)
		}
	}
}
