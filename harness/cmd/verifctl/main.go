package main

import "verifharness/checks"

func main() { checks.Main() }
