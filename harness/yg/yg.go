// Package yg is the in-process adapter to yaccgo (tier P): it calls
// parser.ParseAndBuild with stdout captured and panics recovered, and
// extracts the exported state the properties talk about.
package yg

import (
	"fmt"
	"io"
	"os"
	"path/filepath"
	"sort"
	"sync"
	"sync/atomic"
	"time"

	builder "github.com/acekingke/yaccgo/Builder"
	lalr "github.com/acekingke/yaccgo/LALR"
	parser "github.com/acekingke/yaccgo/Parser"
	utils "github.com/acekingke/yaccgo/Utils"

	"verifharness/ref"
)

var mu sync.Mutex

// Result of one ParseAndBuild call.
type Result struct {
	Root   *parser.RootVistor
	Stdout string
	Err    error       // error returned
	Panic  interface{} // recovered panic value
	Hung   bool        // yaccgo did not return within BuildDeadline
}

func (r *Result) Accepted() bool {
	return !r.Hung && r.Err == nil && r.Panic == nil && r.Root != nil
}

func (r *Result) Diagnostic() string {
	if r.Err != nil {
		return "error: " + r.Err.Error()
	}
	if r.Panic != nil {
		return fmt.Sprint("panic: ", r.Panic)
	}
	return ""
}

// Capture runs f with os.Stdout redirected to a pipe and returns what was
// written. Panics inside f propagate after stdout is restored.
func Capture(f func()) (out string) {
	old := os.Stdout
	r, w, err := os.Pipe()
	if err != nil {
		panic(err)
	}
	os.Stdout = w
	done := make(chan string)
	go func() {
		b, _ := io.ReadAll(r)
		done <- string(b)
	}()
	defer func() {
		w.Close()
		os.Stdout = old
		out = <-done
		r.Close()
	}()
	f()
	return
}

// hung is set once an in-process call into yaccgo did not return in time; the
// goroutine stuck inside it holds the lock and the redirected stdout, so every
// later call gives up at once (the unit then ends quickly with an
// infrastructure problem instead of sitting out its whole time limit).
var hung atomic.Bool

// BuildDeadline bounds one in-process ParseAndBuild (normal: about a millisecond).
var BuildDeadline = 60 * time.Second

// Build runs ParseAndBuild on text. debug switches utils.DebugFlags (the
// `yaccgo debug` listing) for the duration of the call. When yaccgo does not
// return within BuildDeadline the result has Hung set (termination is C13's
// property, decided there with a killable worker process).
func Build(text string, debug bool) *Result {
	if hung.Load() {
		return &Result{Hung: true}
	}
	ch := make(chan *Result, 1)
	go func() { ch <- buildLocked(text, debug) }()
	select {
	case r := <-ch:
		return r
	case <-time.After(BuildDeadline):
		hung.Store(true)
		dumpHung(text)
		return &Result{Hung: true}
	}
}

// dumpHung keeps the text on which yaccgo is stuck (VERIF_HANG_DUMP names a
// directory), so that the input can be handed to C13's replay.
func dumpHung(text string) {
	if d := os.Getenv("VERIF_HANG_DUMP"); d != "" {
		os.WriteFile(filepath.Join(d, fmt.Sprintf("hung-%d.y", os.Getpid())), []byte(text), 0o644)
	}
}

func buildLocked(text string, debug bool) *Result {
	mu.Lock()
	defer mu.Unlock()
	res := &Result{}
	oldDebug := utils.DebugFlags
	utils.DebugFlags = debug
	defer func() { utils.DebugFlags = oldDebug }()
	res.Stdout = Capture(func() {
		defer func() {
			if e := recover(); e != nil {
				res.Panic = e
			}
		}()
		w, err := parser.ParseAndBuild(text)
		res.Err = err
		if err == nil && w != nil {
			res.Root = w.VistorNode.(*parser.RootVistor)
		}
	})
	return res
}

// Adapt maps yaccgo's grammar onto a reference CFG: terminals (without the
// end marker, id 1) and nonterminals (without the augmented start, id 0) in
// id order.
type Adapt struct {
	L       *lalr.LALR1
	G       *ref.CFG
	ToOurs  map[uint]int // yaccgo symbol id -> our symbol
	FromOur []uint       // our symbol -> yaccgo symbol id
}

// ErrRepresentation marks a failed assumption of the harness about how yaccgo
// lays out its symbol table (index = id, symbol 0 = augmented start, symbol 1 =
// end marker "$"). It is not a verdict about any property: checks report it
// as an infrastructure problem.
type ErrRepresentation struct{ Msg string }

func (e *ErrRepresentation) Error() string {
	return "harness assumption about yaccgo's symbol table does not hold: " + e.Msg
}

func NewAdapt(root *parser.RootVistor) (*Adapt, error) {
	l := root.LALR1
	G := l.G
	a := &Adapt{L: l, ToOurs: map[uint]int{}}
	var terms, nts []uint
	names := map[uint]string{}
	for idx, sy := range G.Symbols {
		if uint(idx) != sy.ID {
			return nil, &ErrRepresentation{fmt.Sprintf("symbol at index %d has ID %d", idx, sy.ID)}
		}
		names[sy.ID] = sy.Name
		if sy.ID == 0 || sy.ID == 1 {
			continue
		}
		if sy.IsNonTerminator {
			nts = append(nts, sy.ID)
		} else {
			terms = append(terms, sy.ID)
		}
	}
	if len(G.Symbols) < 2 || G.Symbols[1].Name != "$" || G.Symbols[1].IsNonTerminator {
		return nil, &ErrRepresentation{"symbol 1 is not the end marker \"$\""}
	}
	g := &ref.CFG{NT: len(terms), NN: len(nts)}
	for i, id := range terms {
		a.ToOurs[id] = i
		g.Names = append(g.Names, names[id])
	}
	for i, id := range nts {
		a.ToOurs[id] = g.NT + i
		g.Names = append(g.Names, names[id])
	}
	a.FromOur = append(append([]uint{}, terms...), nts...)
	for i, r := range G.ProductoinRules {
		cr := ref.Rule{}
		if i == 0 {
			cr.LHS = -1
			if r.LeftPart.ID != 0 {
				return nil, &ErrRepresentation{"rule 0 lhs is not symbol 0 (the augmented start)"}
			}
		} else {
			o, ok := a.ToOurs[r.LeftPart.ID]
			if !ok || o < g.NT {
				return nil, fmt.Errorf("rule %d: lhs %q is not a nonterminal", i, r.LeftPart.Name)
			}
			cr.LHS = o
		}
		for _, s := range r.RighPart {
			o, ok := a.ToOurs[s.ID]
			if !ok {
				return nil, fmt.Errorf("rule %d: rhs symbol %q has no mapping", i, s.Name)
			}
			cr.RHS = append(cr.RHS, o)
		}
		g.Rules = append(g.Rules, cr)
	}
	if len(g.Rules) == 0 || len(g.Rules[0].RHS) != 1 {
		return nil, fmt.Errorf("rule 0 is not S' -> S")
	}
	a.G = g
	return a, nil
}

// YState is one yaccgo automaton state in our symbol numbering.
type YState struct {
	Items []ref.Item  // in yaccgo's order
	Goto  map[int]int // our symbol -> state
	// DupGoto is set when the GoTo list names a symbol twice
	DupGoto bool
}

func (a *Adapt) States() []YState {
	var out []YState
	for _, ic := range a.L.G.LR0.LR0Closure {
		ys := YState{Goto: map[int]int{}}
		for _, it := range ic.Items {
			ys.Items = append(ys.Items, ref.Item{R: it.RuleIndex, D: it.Dot})
		}
		for _, gt := range ic.GoTo {
			k := a.ToOurs[gt.Sym.ID]
			if _, dup := ys.Goto[k]; dup {
				ys.DupGoto = true
			}
			ys.Goto[k] = gt.ItemCl
		}
		out = append(out, ys)
	}
	return out
}

// TermBit converts a yaccgo symbol id of a terminal into a ref.TSet bit.
func (a *Adapt) TermBit(id int) (ref.TSet, error) {
	if id == 1 {
		return a.G.DollarBit(), nil
	}
	o, ok := a.ToOurs[uint(id)]
	if !ok || o >= a.G.NT {
		return 0, fmt.Errorf("symbol id %d is not a terminal", id)
	}
	return ref.Bit(o), nil
}

// SymID converts our terminal index (G.NT = end marker) to a yaccgo id.
func (a *Adapt) SymID(t int) int {
	if t == a.G.NT+a.G.NN || t == -1 {
		return 1
	}
	return int(a.FromOur[t])
}

// TermID: terminal index or NT (=end marker) to yaccgo id.
func (a *Adapt) TermID(t int) int {
	if t == a.G.NT {
		return 1
	}
	return int(a.FromOur[t])
}

// Lookaheads returns per state: rule -> lookahead set, from the verif hook.
func (a *Adapt) Lookaheads() ([]map[int]ref.TSet, error) {
	n := len(a.L.G.LR0.LR0Closure)
	out := make([]map[int]ref.TSet, n)
	for i := range out {
		out[i] = map[int]ref.TSet{}
	}
	for _, e := range a.L.VerifReduceLookaheads() {
		if e.State < 0 || e.State >= n {
			return nil, fmt.Errorf("reduce transition with state %d out of range", e.State)
		}
		var s ref.TSet
		for _, id := range e.LookAhead {
			b, err := a.TermBit(id)
			if err != nil {
				return nil, fmt.Errorf("state %d rule %d: %v", e.State, e.Rule, err)
			}
			s |= b
		}
		if _, dup := out[e.State][e.Rule]; dup {
			return nil, fmt.Errorf("state %d rule %d listed twice", e.State, e.Rule)
		}
		out[e.State][e.Rule] = s
	}
	return out, nil
}

// PackedLookup is a model of the lookup function of the generated parser
// (Builder/goCode.templ:(*StateSym).Action) over the exported packed arrays.
func PackedLookup(l *lalr.LALR1, state, a int) (v int, err error) {
	defer func() {
		if e := recover(); e != nil {
			err = fmt.Errorf("packed lookup (%d,%d): %v", state, a, e)
		}
	}()
	nTerm := len(l.G.VtSet)
	off := l.OffsetTable[state] + a
	if off < 0 || off >= len(l.CheckTable) || l.CheckTable[off] != state {
		if a > nTerm {
			return l.GoToDef[a-nTerm-1], nil
		}
		return l.ActionDef[state], nil
	}
	return l.ActionTable[off], nil
}

// Run is the result of the reference LR driver.
type Run struct {
	Accepted bool
	Reds     []int
	ErrPos   int    // number of tokens consumed when the error was detected
	Bad      string // driver-level failure (bad state, stack underflow, step limit)
	Steps    int
	Shifted  int
}

// Drive runs a plain LR driver over look(state, symbolID) on the input given
// as yaccgo symbol ids (the end marker is appended by the driver).
func Drive(l *lalr.LALR1, look func(state, a int) (int, error), input []int, maxSteps int) Run {
	errc, accc := l.GenErrorCode(), l.GenAcceptCode()
	nStates := len(l.GTable)
	st := []int{0}
	pos := 0
	var res Run
	for steps := 0; steps < maxSteps; steps++ {
		la := 1
		if pos < len(input) {
			la = input[pos]
		}
		a, err := look(st[len(st)-1], la)
		res.Steps = steps
		switch {
		case err != nil:
			res.Bad = err.Error()
			return res
		case a == errc:
			res.ErrPos = pos
			return res
		case a == accc:
			res.Accepted = true
			res.ErrPos = pos
			return res
		case a > 0:
			if a >= nStates {
				res.Bad = fmt.Sprintf("shift to non-existent state %d", a)
				return res
			}
			if pos >= len(input) {
				res.Bad = "shift of the end marker"
				return res
			}
			st = append(st, a)
			pos++
			res.Shifted++
		default:
			r := -a
			if r <= 0 || r >= len(l.G.ProductoinRules) {
				res.Bad = fmt.Sprintf("reduce by non-existent rule %d", r)
				return res
			}
			pr := l.G.ProductoinRules[r]
			if len(st)-len(pr.RighPart) < 1 {
				res.Bad = "stack underflow"
				return res
			}
			st = st[:len(st)-len(pr.RighPart)]
			g, err := look(st[len(st)-1], int(pr.LeftPart.ID))
			if err != nil {
				res.Bad = err.Error()
				return res
			}
			if g <= 0 || g >= nStates {
				res.Bad = fmt.Sprintf("goto entry %d after reducing rule %d in state %d", g, r, st[len(st)-1])
				return res
			}
			st = append(st, g)
			res.Reds = append(res.Reds, r)
		}
	}
	res.Bad = "steplimit"
	return res
}

// SortedKeys of an int-keyed map.
func SortedKeys[V any](m map[int]V) []int {
	k := make([]int, 0, len(m))
	for x := range m {
		k = append(k, x)
	}
	sort.Ints(k)
	return k
}

// GenResult of an in-process generator call.
type GenResult struct {
	Err    error
	Panic  interface{}
	Stdout string
	Hung   bool
}

func (r GenResult) Failed() bool { return r.Hung || r.Err != nil || r.Panic != nil }

// Generate calls the same builder entry points as the CLI (yaccgo/command.go)
// with the same global mode switches. variant: go, go-u, go-o, go-ou, ts.
func Generate(text, variant, outfile string) GenResult {
	if hung.Load() {
		return GenResult{Hung: true}
	}
	ch := make(chan GenResult, 1)
	go func() { ch <- generateLocked(text, variant, outfile) }()
	select {
	case r := <-ch:
		return r
	case <-time.After(BuildDeadline):
		hung.Store(true)
		dumpHung(text)
		return GenResult{Hung: true}
	}
}

// Hung reports whether an earlier in-process call is stuck inside yaccgo.
func Hung() bool { return hung.Load() }

func generateLocked(text, variant, outfile string) GenResult {
	mu.Lock()
	defer mu.Unlock()
	var res GenResult
	oldP, oldO, oldH, oldD := utils.PackFlags, utils.ObjectMode, utils.HttpDebug, utils.DebugFlags
	defer func() { utils.PackFlags, utils.ObjectMode, utils.HttpDebug, utils.DebugFlags = oldP, oldO, oldH, oldD }()
	utils.PackFlags = !(variant == "go-u" || variant == "go-ou")
	utils.ObjectMode = variant == "go-o" || variant == "go-ou"
	utils.HttpDebug = false
	utils.DebugFlags = false
	res.Stdout = Capture(func() {
		defer func() {
			if e := recover(); e != nil {
				res.Panic = e
			}
		}()
		if variant == "ts" {
			res.Err = builder.TsGenFromString(text, outfile)
		} else {
			res.Err = builder.TemplateGenFromString(text, outfile)
		}
	})
	return res
}
